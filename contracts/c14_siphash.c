/* C14 (SipHash part) -- tlx::siphash_plain(key, m, len) == SipHash-2-4 as defined in the paper (spec/siphash_spec.h, checked
 * against the published test vectors on every run), for every key and every message of exactly FIX_LEN bytes (one job per
 * length: the block loop and the tail switch are then closed by unwinding assertions).  The message buffer has exactly
 * FIX_LEN bytes, so a read past the message is a bounds obligation.
 * NOT under contract: siphash_sse2 (vector intrinsics are outside the translator) and therefore tlx::siphash() on x86-64,
 * which dispatches to it. */
#include "verif.h"
#include "gen.h"
#define SIP_MAXLEN (8 * (FIX_LEN / 8 + 1))
#include "siphash_spec.h"

uint64_t c_siphash(const uint8_t* key, const uint8_t* m, uint64_t len)
__CPROVER_requires(len == FIX_LEN)
__CPROVER_assigns()
__CPROVER_ensures(__CPROVER_return_value == spec_siphash24(key, m, len))
{ return w_siphash_plain(key, m, len); }

void HARNESS(void)
{
  INPUT_ARR(uint8_t, in_key, 16); INPUT_ARR(uint8_t, in_msg, FIX_LEN + 1);
  uint8_t key[16]; uint8_t msg[FIX_LEN + (FIX_LEN == 0)];
  for (unsigned i = 0; i < 16; i++) key[i] = in_key[i];
  for (unsigned i = 0; i < FIX_LEN; i++) msg[i] = in_msg[i];
  ir_throw_allowed = 0;
  c_siphash(key, msg, FIX_LEN);
  CANARY();
}
