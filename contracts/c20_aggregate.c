/* C20 -- contracts for tlx::Aggregate<double>: add(), operator+ and operator+=.
 * What is decided: the exact parts of the property (count, minimum, maximum of a combination are exact functions of
 * the operands; combining with an empty aggregate leaves every observable unchanged; `a += b` leaves exactly what
 * `a + b` returns).  What is NOT decided: "mean and variance equal those of a single feed up to rounding" -- a
 * floating-point error-bound statement. */
#include "verif.h"
#include "gen.h"
typedef struct S_class_tlx__Aggregate Agg;
/* field order is checked against the real class by tools/layout (count_, mean_, nvar_, min_, max_) */
#define A_count f0
#define A_mean f1
#define A_nvar f2
#define A_min f3
#define A_max f4
#define DBL_MAX_ 1.7976931348623157e308

static _Bool finite_(double x) { return x == x && x <= DBL_MAX_ && x >= -DBL_MAX_; }
static _Bool same_(double x, double y) { return x == y || (x != x && y != y); }
/* a state that some sequence of add() calls can leave (necessary conditions only) or the default-constructed one */
static _Bool agg_ok(const Agg* a)
{
  if (a->A_count == 0) return a->A_mean == 0.0 && a->A_nvar == 0.0 && a->A_min == DBL_MAX_ && a->A_max == -DBL_MAX_;
  return a->A_count < (1ull << 52) && finite_(a->A_mean) && finite_(a->A_nvar) && a->A_nvar >= 0.0 &&
         finite_(a->A_min) && finite_(a->A_max) && a->A_min <= a->A_max &&
         a->A_mean > -1e150 && a->A_mean < 1e150 && a->A_nvar < 1e300;
}


/* Uninterpreted-function abstraction of the two private combination helpers (Ackermann encoding with a two-entry
 * memo): equal arguments => equal result, nothing else is known.  What is proved with these stubs holds for every
 * interpretation of the helpers that is a function of the six scalar arguments, hence for the real ones; that they
 * are such functions (no writes, no other reads) is the purity contract SPEC_pure below. */
#ifdef NATIVE
static double nondet_double(void) { return 0.0; }
#define UF_CLAUSE(x) 1          /* clauses about the uninterpreted helpers have no native counterpart */
#else
double nondet_double(void);
#define UF_CLAUSE(x) (x)
#endif
struct uf_key { double m1, v1, m2, v2; uint64_t c1, c2; };
struct uf_memo { struct uf_key k[2]; double r[2]; int n; };
static struct uf_memo memo_cm, memo_cv;
static _Bool uf_eq(const struct uf_key* x, const struct uf_key* y)
{ return same_(x->m1, y->m1) && same_(x->v1, y->v1) && same_(x->m2, y->m2) && same_(x->v2, y->v2) && x->c1 == y->c1 && x->c2 == y->c2; }
static double uf_apply(struct uf_memo* m, const Agg* a, const Agg* b, _Bool with_nvar)
{
  struct uf_key k = { a->A_mean, with_nvar ? a->A_nvar : 0.0, b->A_mean, with_nvar ? b->A_nvar : 0.0, a->A_count, b->A_count };
  for (int i = 0; i < 2; i++) if (i < m->n && uf_eq(&m->k[i], &k)) return m->r[i];
  double r = nondet_double();
  __CPROVER_assert(m->n < 2, "uninterpreted-function memo large enough");
  m->k[m->n] = k; m->r[m->n] = r; m->n++;
  return r;
}
/* combine_means is a function of (mean, count) of both operands, combine_variance of (mean, nvar, count): SPEC_dep */
double uf_combine_means(Agg* self, Agg* o) { return uf_apply(&memo_cm, self, o, 0); }
double uf_combine_variance(Agg* self, Agg* o) { return uf_apply(&memo_cv, self, o, 1); }

#if defined(SPEC_add)
void c_add(Agg* a, double v)
__CPROVER_requires(agg_ok(a) && finite_(v))
__CPROVER_assigns(*a)
__CPROVER_ensures(a->A_count == __CPROVER_old(a->A_count) + 1)
__CPROVER_ensures(a->A_min == (v < __CPROVER_old(a->A_min) ? v : __CPROVER_old(a->A_min)))
__CPROVER_ensures(a->A_max == (v > __CPROVER_old(a->A_max) ? v : __CPROVER_old(a->A_max)))
/* the first value becomes the mean exactly, with zero variance */
__CPROVER_ensures(__CPROVER_old(a->A_count) != 0 || (a->A_mean == v && a->A_nvar == 0.0))
{ w_agg_add(a, v); }
void HARNESS(void) { INPUT(Agg, in_a); INPUT(double, in_v); __CPROVER_assume(agg_ok(&in_a) && finite_(in_v)); c_add(&in_a, in_v); CANARY(); }

#elif defined(SPEC_pure)
/* combine_means / combine_variance write nothing (frame = empty) */
double c_pure(Agg* a, Agg* b)
__CPROVER_requires(agg_ok(a) && agg_ok(b))
__CPROVER_assigns()
{ return PUREFN(a, b); }
void HARNESS(void) { INPUT(Agg, in_a); INPUT(Agg, in_b); __CPROVER_assume(agg_ok(&in_a) && agg_ok(&in_b)); c_pure(&in_a, &in_b); CANARY(); }

#elif defined(SPEC_helper_empty)
/* the real combination helpers with one EMPTY operand (constant default-constructed state): the result is exactly the
 * other operand's mean / variance sum.  EMPTY_LEFT selects which side is empty. */
double c_helper_empty(Agg* a, Agg* b, Agg* x)
__CPROVER_requires(agg_ok(a) && agg_ok(b) && x->A_count >= 1 && (EMPTY_LEFT ? (x == b && a->A_count == 0) : (x == a && b->A_count == 0)))
__CPROVER_assigns()
__CPROVER_ensures(__CPROVER_return_value == (WHICH_CV ? x->A_nvar : x->A_mean))
{ return PUREFN(a, b); }
void HARNESS(void)
{
  INPUT(Agg, in_x); Agg e;
  e.A_count = 0; e.A_mean = 0.0; e.A_nvar = 0.0; e.A_min = DBL_MAX_; e.A_max = -DBL_MAX_;
  __CPROVER_assume(agg_ok(&in_x) && in_x.A_count >= 1);
  if (EMPTY_LEFT) c_helper_empty(&e, &in_x, &in_x); else c_helper_empty(&in_x, &e, &in_x);
  CANARY();
}

#elif defined(SPEC_helper_formula)
/* the real combination helpers against their defining formulas (weighted mean; Chan et al. 1979 pairwise variance update),
 * bit for bit, for all counts >= 1 and all means / variance sums.  Decided by cvc5's floating-point theory in seconds (the
 * SAT back end does not finish the multiplier/divider miters even for constant counts; z3 4.8 does not either).  This pins
 * the formula down: which operand is weighted by which count, the order of operations. */
static double spec_cm(double m1, uint64_t c1, double m2, uint64_t c2) { return (m1 * (double)c1 + m2 * (double)c2) / (double)(c1 + c2); }
static double spec_cv(double m1, double v1, uint64_t c1, double m2, double v2, uint64_t c2)
{ double delta = m1 - m2; return v1 + v2 + (delta * delta) * (double)(c1 * c2) / (double)(c1 + c2); }
double c_helper_formula(Agg* a, Agg* b)
__CPROVER_requires(agg_ok(a) && agg_ok(b) && a->A_count >= 1 && b->A_count >= 1)
__CPROVER_assigns()
__CPROVER_ensures(same_(__CPROVER_return_value, WHICH_CV ? spec_cv(a->A_mean, a->A_nvar, a->A_count, b->A_mean, b->A_nvar, b->A_count)
                                                          : spec_cm(a->A_mean, a->A_count, b->A_mean, b->A_count)))
{ return PUREFN(a, b); }
void HARNESS(void)
{
  INPUT(Agg, in_a); INPUT(Agg, in_b);
#ifdef FIX_C1
  in_a.A_count = FIX_C1; in_b.A_count = FIX_C2;
#endif
  __CPROVER_assume(agg_ok(&in_a) && agg_ok(&in_b) && in_a.A_count >= 1 && in_b.A_count >= 1);
  c_helper_formula(&in_a, &in_b);
  CANARY();
}

#elif defined(SPEC_dep)
/* the helper's result depends only on the fields the uninterpreted abstraction keys on: two runs on states that agree
 * on those fields (and differ arbitrarily elsewhere) return the same value (self-composition) */
static _Bool agree(const Agg* x, const Agg* y) { return same_(x->A_mean, y->A_mean) && x->A_count == y->A_count && (!DEP_NVAR || same_(x->A_nvar, y->A_nvar)); }
double c_dep(Agg* a, Agg* b, Agg* a2, Agg* b2)
__CPROVER_requires(agree(a, a2) && agree(b, b2))
__CPROVER_assigns()
__CPROVER_ensures(same_(__CPROVER_return_value, PUREFN(a2, b2)))
{ return PUREFN(a, b); }
void HARNESS(void)
{
  /* second pair = first pair with every field outside the dependency set replaced by an arbitrary value */
  INPUT(Agg, in_a); INPUT(Agg, in_b); INPUT(Agg, in_a2); INPUT(Agg, in_b2);
  Agg a2 = in_a, b2 = in_b;
  a2.A_min = in_a2.A_min; a2.A_max = in_a2.A_max; b2.A_min = in_b2.A_min; b2.A_max = in_b2.A_max;
  if (!DEP_NVAR) { a2.A_nvar = in_a2.A_nvar; b2.A_nvar = in_b2.A_nvar; }
  c_dep(&in_a, &in_b, &a2, &b2); CANARY();
}

#elif defined(SPEC_plus)
/* out = a + b: exact parts; the mean / variance sum are whatever the two helpers return for (a, b)
 * (em, ev: ghost parameters = the uninterpreted helpers applied to the operands before the call) */
void c_plus(Agg* out, Agg* a, Agg* b, double em, double ev)
__CPROVER_requires(agg_ok(a) && agg_ok(b))
__CPROVER_assigns(*out, memo_cm, memo_cv)
__CPROVER_ensures(out->A_count == a->A_count + b->A_count)
__CPROVER_ensures(out->A_min == (b->A_min < a->A_min ? b->A_min : a->A_min))
__CPROVER_ensures(out->A_max == (b->A_max > a->A_max ? b->A_max : a->A_max))
__CPROVER_ensures(UF_CLAUSE(same_(out->A_mean, em) && same_(out->A_nvar, ev)))
{ w_agg_plus(out, a, b); }
void HARNESS(void)
{
  INPUT(Agg, in_a); INPUT(Agg, in_b); Agg out;
  __CPROVER_assume(agg_ok(&in_a) && agg_ok(&in_b));
  memo_cm.n = 0; memo_cv.n = 0;
  double em = uf_combine_means(&in_a, &in_b), ev = uf_combine_variance(&in_a, &in_b);
  c_plus(&out, &in_a, &in_b, em, ev); CANARY();
}

#elif defined(SPEC_plus_empty)
/* combining with an empty aggregate changes no observable: x = the non-empty operand (EMPTY_A: the right one).
 * Real helper bodies; the empty operand is the default-constructed object built by the real constructor. */
void c_plus_empty(Agg* out, Agg* a, Agg* b, Agg* x)
__CPROVER_requires(agg_ok(a) && agg_ok(b) && (x == a || x == b))
__CPROVER_assigns(*out)
__CPROVER_ensures(out->A_count == x->A_count && w_agg_min(out) == w_agg_min(x) && w_agg_max(out) == w_agg_max(x))
__CPROVER_ensures(w_agg_mean(out) == w_agg_mean(x))
__CPROVER_ensures(w_agg_variance(out, 1) == w_agg_variance(x, 1) && w_agg_variance(out, 0) == w_agg_variance(x, 0))
{ w_agg_plus(out, a, b); }
void HARNESS(void)
{
  INPUT(Agg, in_x); Agg e; Agg out;
  __CPROVER_assume(agg_ok(&in_x));
  w_agg_init(&e);
#ifdef EMPTY_A
  c_plus_empty(&out, &e, &in_x, &in_x);
#else
  c_plus_empty(&out, &in_x, &e, &in_x);
#endif
  CANARY();
}

#elif defined(SPEC_pluseq)
/* a += b leaves exactly what a + b returns (ref = the value of the real operator+ on the same operands) */
void c_pluseq(Agg* a, Agg* b, Agg* ref)
__CPROVER_requires(agg_ok(a) && agg_ok(b))
__CPROVER_assigns(*a, memo_cm, memo_cv)
__CPROVER_ensures(a->A_count == ref->A_count)
__CPROVER_ensures(same_(a->A_min, ref->A_min) && same_(a->A_max, ref->A_max))
__CPROVER_ensures(same_(a->A_mean, ref->A_mean))
__CPROVER_ensures(same_(a->A_nvar, ref->A_nvar))
{ w_agg_pluseq(a, b); }
void HARNESS(void)
{
  INPUT(Agg, in_a); INPUT(Agg, in_b); Agg ref;
  memo_cm.n = 0; memo_cv.n = 0;
#ifdef B_IS_A
  __CPROVER_assume(agg_ok(&in_a));
  w_agg_plus(&ref, &in_a, &in_a);
  c_pluseq(&in_a, &in_a, &ref);       /* self-combination a += a */
#else
  __CPROVER_assume(agg_ok(&in_a) && agg_ok(&in_b));
#ifdef WITNESS_GENERIC   /* only when a counterexample is extracted: prefer inputs on which the real helpers differ too */
  __CPROVER_assume(in_a.A_count >= 2 && in_a.A_count <= 5 && in_b.A_count >= 2 && in_b.A_count <= 5 && in_a.A_nvar >= 1.0 && in_b.A_nvar >= 1.0 &&
                   in_a.A_mean >= 1.0 && in_a.A_mean <= 2.0 && in_b.A_mean >= 10.0 && in_b.A_mean <= 20.0);
#endif
  w_agg_plus(&ref, &in_a, &in_b);
  c_pluseq(&in_a, &in_b, &ref);
#endif
  CANARY();
}
#else
#error "no SPEC_ selected"
#endif
