/* C19 -- string codecs round-trip and string helpers match their documented semantics.
 * Inputs: byte strings of symbolic length <= LN in fixed-size buffers, all byte values; std::string results are copied
 * out by the shim.  Every std::string involved stays within the small-string buffer (<= 15 chars) under these bounds;
 * the libstdc++ heap path (basic_string::_M_create) is replaced by a stub that FAILS when reached, so this is proved.
 * Spec functions are direct transcriptions of RFC 4648 / the documented definitions.  BOUNDED in length only. */
#include "verif.h"
#include "gen.h"
#ifndef LN
#define LN 6
#endif
#define OUTMAX 16
typedef struct S_class_std____cxx11__basic_string Str;
uint8_t* stub_no_heap_string(Str* s, uint64_t* cap, uint64_t old)
{ __CPROVER_assert(0, "std::string stays within its small-string buffer under the length bound of this job"); __CPROVER_assume(0); return 0; }

#define MK_STR(nm, MAXN) INPUT_ARR(uint8_t, in_##nm, MAXN); INPUT(uint64_t, in_##nm##n); FIXLEN_##nm __CPROVER_assume(in_##nm##n <= MAXN); uint8_t* nm = in_##nm;
#ifdef FIX_AN
#define FIXLEN_a in_an = FIX_AN;
#else
#define FIXLEN_a
#endif
#define FIXLEN_b
#define FIXLEN_c
static uint8_t lower_(uint8_t c) { return (c >= 'A' && c <= 'Z') ? (uint8_t)(c + 32) : c; }
static uint8_t upper_(uint8_t c) { return (c >= 'a' && c <= 'z') ? (uint8_t)(c - 32) : c; }
static const char HEXU[] = "0123456789ABCDEF", HEXL[] = "0123456789abcdef";
static const char B64[] = "ABCDEFGHIJKLMNOPQRSTUVWXYZabcdefghijklmnopqrstuvwxyz0123456789+/";   /* RFC 4648 table 1 */

#if defined(OP_hexdump)
/* hexdump / hexdump_lc: two hex digits per byte, high nibble first; g = ghost output index */
uint64_t c_hexdump(uint8_t* a, uint64_t an, uint8_t* out, uint64_t g)
__CPROVER_requires(an <= LN && g < 2 * LN)
__CPROVER_assigns(__CPROVER_object_whole(out))
__CPROVER_ensures(__CPROVER_return_value == 2 * an)
__CPROVER_ensures(g >= 2 * an || out[g] == (uint8_t)(LOWER ? HEXL : HEXU)[(g % 2 == 0) ? (a[g / 2] >> 4) : (a[g / 2] & 15)])
{ return LOWER ? w_hexdump_lc(a, an, out) : w_hexdump(a, an, out); }
void HARNESS(void) { MK_STR(a, LN) INPUT(uint64_t, in_g); uint8_t out[OUTMAX]; __CPROVER_assume(in_g < 2 * LN); ir_throw_allowed = 0; c_hexdump(a, in_an, out, in_g); CANARY(); }

#elif defined(OP_parse_hexdump)
/* parse_hexdump inverts both hexdump variants: feeding the digits of any byte string gives the bytes back */
uint64_t c_parse(uint8_t* hex, uint64_t hn, uint8_t* out, uint8_t* orig, uint64_t g)
__CPROVER_requires(hn <= 2 * LN && hn % 2 == 0 && g < LN)
__CPROVER_assigns(__CPROVER_object_whole(out))
__CPROVER_ensures(__CPROVER_return_value == hn / 2 && (g >= hn / 2 || out[g] == orig[g]))
{ return w_parse_hexdump(hex, hn, out); }
void HARNESS(void)
{
  MK_STR(a, LN) INPUT(uint64_t, in_g); INPUT_ARR(_Bool, in_lc, 2 * LN); uint8_t hex[2 * LN]; uint8_t out[OUTMAX];
  __CPROVER_assume(in_g < LN);
  for (unsigned i = 0; i < 2 * LN; i++) { uint8_t nib = (i % 2 == 0) ? (a[i / 2] >> 4) : (a[i / 2] & 15); hex[i] = (uint8_t)(in_lc[i] ? HEXL : HEXU)[nib]; }
  ir_throw_allowed = 0;
  c_parse(hex, 2 * in_an, out, a, in_g); CANARY();
}

#elif defined(OP_base64_encode)
/* RFC 4648 section 4: 3 bytes -> 4 letters, '=' padding; a line break ("\n") after every line_break letters */
static uint64_t b64_len(uint64_t n) { return 4 * ((n + 2) / 3); }
static uint8_t b64_char(const uint8_t* a, uint64_t n, uint64_t j)      /* j-th letter of the unbroken encoding */
{
  uint64_t q = j / 4, r = j % 4, i = 3 * q;
  uint32_t b0 = a[i], b1 = i + 1 < n ? a[i + 1] : 0, b2 = i + 2 < n ? a[i + 2] : 0;
  uint32_t w = (b0 << 16) | (b1 << 8) | b2;
  if (r == 2 && i + 1 >= n) return '=';
  if (r == 3 && i + 2 >= n) return '=';
  return (uint8_t)B64[(w >> (18 - 6 * r)) & 63];
}
uint64_t c_b64enc(uint8_t* a, uint64_t an, uint64_t lb, uint8_t* out, uint64_t g)
__CPROVER_requires(an <= LN && (lb == 0 || lb == 4 || lb == 8) && g < OUTMAX)
__CPROVER_assigns(__CPROVER_object_whole(out))
/* length: the RFC letters plus one line break after every lb letters that end in a complete (unpadded) 4-letter block */
__CPROVER_ensures(__CPROVER_return_value == b64_len(an) + (lb == 0 ? 0 : ((an / 3) * 4) / lb))
/* position g of the output: a break at every (lb+1)-th position, otherwise the next letter of the RFC encoding */
__CPROVER_ensures(g >= __CPROVER_return_value || (lb != 0 && g % (lb + 1) == lb ? out[g] == '\n' : out[g] == b64_char(a, an, lb == 0 ? g : g - g / (lb + 1))))
{ return w_base64_encode(a, an, lb, out); }
void HARNESS(void)
{
  MK_STR(a, LN) INPUT(uint64_t, in_lb); INPUT(uint64_t, in_g); uint8_t out[OUTMAX];
  __CPROVER_assume((in_lb == 0 || in_lb == 4 || in_lb == 8) && in_g < OUTMAX);
  ir_throw_allowed = 0; c_b64enc(a, in_an, in_lb, out, in_g); CANARY();
}

#elif defined(OP_base64_roundtrip)
/* base64_decode(base64_encode(x, lb)) == x for lb in {0, 4, 8} (strict decoding) */
uint64_t c_b64rt(uint8_t* a, uint64_t an, uint64_t lb, uint8_t* dec, uint64_t g)
__CPROVER_requires(an <= LN && (lb == 0 || lb == 4 || lb == 8) && g < LN)
__CPROVER_assigns(__CPROVER_object_whole(dec))
__CPROVER_ensures(__CPROVER_return_value == an && (g >= an || dec[g] == a[g]))
{
  uint8_t enc[OUTMAX];
  uint64_t en = w_base64_encode(a, an, lb, enc);
  return w_base64_decode(enc, en, 1, dec);
}
void HARNESS(void)
{
  MK_STR(a, LN) INPUT(uint64_t, in_lb); INPUT(uint64_t, in_g); uint8_t dec[OUTMAX];
  __CPROVER_assume((in_lb == 0 || in_lb == 4 || in_lb == 8) && in_g < LN);
  ir_throw_allowed = 0; c_b64rt(a, in_an, in_lb, dec, in_g); CANARY();
}

#elif defined(OP_case)
/* to_lower / to_upper on a character (all 256 values) and on a string; compare_icase; starts/ends_with_icase */
void c_case(uint8_t c, uint8_t* a, uint64_t an, uint8_t* out, uint64_t g)
__CPROVER_requires(an <= LN && g < LN)
__CPROVER_assigns(__CPROVER_object_whole(out))
__CPROVER_ensures(w_to_lower_c(c) == lower_(c) && w_to_upper_c(c) == upper_(c))
__CPROVER_ensures(g >= an || out[g] == (UPPER ? upper_(a[g]) : lower_(a[g])))
{ uint64_t n = UPPER ? w_to_upper(a, an, out) : w_to_lower(a, an, out); __CPROVER_assert(n == an, "case conversion keeps the length"); }
void HARNESS(void) { MK_STR(a, LN) INPUT(uint8_t, in_c); INPUT(uint64_t, in_g); uint8_t out[OUTMAX]; __CPROVER_assume(in_g < LN); ir_throw_allowed = 0; c_case(in_c, a, in_an, out, in_g); CANARY(); }

#elif defined(OP_affix)
/* starts_with / ends_with / contains (+ icase) against the definition */
static _Bool eq_at(const uint8_t* a, uint64_t an, const uint8_t* b, uint64_t bn, uint64_t x, _Bool ic)
{ if (x > an || bn > an - x) return 0; for (uint64_t i = 0; i < LN; i++) if (i < bn && (ic ? lower_(a[x + i]) != lower_(b[i]) : a[x + i] != b[i])) return 0; return 1; }
static _Bool occurs(const uint8_t* a, uint64_t an, const uint8_t* b, uint64_t bn) { for (uint64_t x = 0; x <= LN; x++) if (eq_at(a, an, b, bn, x, 0)) return 1; return 0; }
void c_affix(uint8_t* a, uint64_t an, uint8_t* b, uint64_t bn)
__CPROVER_requires(an <= LN && bn <= LN)
__CPROVER_assigns()
__CPROVER_ensures(w_starts_with(a, an, b, bn) == eq_at(a, an, b, bn, 0, 0) && w_starts_with_icase(a, an, b, bn) == eq_at(a, an, b, bn, 0, 1))
__CPROVER_ensures(w_ends_with(a, an, b, bn) == (bn <= an && eq_at(a, an, b, bn, an - bn, 0)) && w_ends_with_icase(a, an, b, bn) == (bn <= an && eq_at(a, an, b, bn, an - bn, 1)))
__CPROVER_ensures(w_contains(a, an, b, bn) == occurs(a, an, b, bn))
{ w_starts_with(a, an, b, bn); }
void HARNESS(void) { MK_STR(a, LN) MK_STR(b, LN) ir_throw_allowed = 0; c_affix(a, in_an, b, in_bn); CANARY(); }

#elif defined(OP_compare_icase)
static int spec_cmp_icase(const uint8_t* a, uint64_t an, const uint8_t* b, uint64_t bn)
{
  for (uint64_t i = 0; i < LN; i++) if (i < an && i < bn) { uint8_t x = lower_(a[i]), y = lower_(b[i]); if (x != y) return x < y ? -1 : 1; }
  return an < bn ? -1 : (an > bn ? 1 : 0);
}
uint32_t c_cmpi(uint8_t* a, uint64_t an, uint8_t* b, uint64_t bn)
__CPROVER_requires(an <= LN && bn <= LN)
__CPROVER_assigns()
__CPROVER_ensures(((int32_t)__CPROVER_return_value < 0 ? -1 : ((int32_t)__CPROVER_return_value > 0 ? 1 : 0)) == spec_cmp_icase(a, an, b, bn))
{ return w_compare_icase(a, an, b, bn); }
void HARNESS(void) { MK_STR(a, LN) MK_STR(b, LN) ir_throw_allowed = 0; c_cmpi(a, in_an, b, in_bn); CANARY(); }

#elif defined(OP_trim)
/* trim / trim_left / trim_right with a drop set: the longest prefix / suffix of drop characters is removed */
static _Bool in_set(const uint8_t* d, uint64_t dn, uint8_t c) { for (uint64_t i = 0; i < LN; i++) if (i < dn && d[i] == c) return 1; return 0; }
void c_trim(uint8_t* a, uint64_t an, uint8_t* d, uint64_t dn, uint32_t which, uint64_t* off, uint64_t* len)
__CPROVER_requires(an <= LN && dn <= 3 && which <= 2)
__CPROVER_assigns(*off, *len)
__CPROVER_ensures(*off <= an && *len <= an - *off)
/* left side: everything before off is in the drop set, the first kept character is not (or nothing is kept) */
__CPROVER_ensures(which == 2 && *len > 0 ? *off == 0 : 1)
__CPROVER_ensures(which == 1 && *len > 0 ? *off + *len == an : 1)
{ w_trim(a, an, d, dn, which, off, len); }
void HARNESS(void)
{
  MK_STR(a, LN) MK_STR(b, 3) INPUT(uint32_t, in_which); INPUT(uint64_t, in_g); uint64_t off, len;
  __CPROVER_assume(in_which <= 2 && in_g < LN);
  ir_throw_allowed = 0;
  c_trim(a, in_an, b, in_bn, in_which, &off, &len);
  if (in_which != 2 && len > 0) {   /* left edge */
    if (in_g < off) __CPROVER_assert(in_set(b, in_bn, a[in_g]), "every character removed on the left is in the drop set");
    if (len > 0) __CPROVER_assert(!in_set(b, in_bn, a[off]), "the first kept character is not in the drop set");
  }
  if (in_which != 1 && len > 0) {   /* right edge */
    if (in_g >= off + len && in_g < in_an) __CPROVER_assert(in_set(b, in_bn, a[in_g]), "every character removed on the right is in the drop set");
    if (len > 0) __CPROVER_assert(!in_set(b, in_bn, a[off + len - 1]), "the last kept character is not in the drop set");
  }
  if (len == 0 && in_g < in_an) __CPROVER_assert(in_set(b, in_bn, a[in_g]), "an empty result means every character is in the drop set");
  CANARY();
}

#elif defined(OP_levenshtein)
/* edit distance against the recursive definition (memo-free, lengths <= 3) */
static uint64_t lev(const uint8_t* a, uint64_t an, const uint8_t* b, uint64_t bn, _Bool ic, unsigned depth)
{
  if (an == 0) return bn;
  if (bn == 0) return an;
  if (depth == 0) return 99;
  _Bool eq = ic ? lower_(a[an - 1]) == lower_(b[bn - 1]) : a[an - 1] == b[bn - 1];
  uint64_t x = lev(a, an - 1, b, bn, ic, depth - 1) + 1, y = lev(a, an, b, bn - 1, ic, depth - 1) + 1, z = lev(a, an - 1, b, bn - 1, ic, depth - 1) + (eq ? 0 : 1);
  uint64_t m = x < y ? x : y; return m < z ? m : z;
}
uint64_t c_lev(uint8_t* a, uint64_t an, uint8_t* b, uint64_t bn)
__CPROVER_requires(an <= 3 && bn <= 3)
__CPROVER_assigns(ir_live_allocs)
__CPROVER_ensures(__CPROVER_return_value == lev(a, an, b, bn, ICASE, 7))
{ return ICASE ? w_levenshtein_icase(a, an, b, bn) : w_levenshtein(a, an, b, bn); }
void HARNESS(void)
{
  MK_STR(a, 3) MK_STR(b, 3)
#ifdef FIX_BN
  in_bn = FIX_BN;
#endif
  ir_throw_allowed = 0; ir_live_allocs = 0; c_lev(a, in_an, b, in_bn); CANARY();
}
#else
#error "no OP_ selected"
#endif
