/* C05 -- sequential multiway merge: emits the `size` smallest elements in order, stably where promised, and advances
 * the inputs.  One entry point / algorithm variant per job (shims/mwmerge.cpp -DENTRY), K sequences (-DK, a constant so
 * that loser trees are allocated with a constant size), each of symbolic length <= LMAX in a fixed-size array, symbolic
 * keys (all byte values below the sentinel), symbolic `size` <= total length.  BOUNDED: K <= 5, LMAX <= 3.
 * Elements are (key, tag); the comparator looks at the key only; tag = 16 * sequence + position identifies the element,
 * which is how permutation, "the smallest ones" and stability are stated for ghost indices. */
#include "verif.h"
#include "gen.h"
typedef struct S_struct_E E;
typedef struct S_struct_std__pair Seq;
#define E_key f0
#define E_tag f1
#ifndef LMAX
#define LMAX 3
#endif
#define SENT 0xFF           /* sentinel key, greater than every real key */
#define TOTALMAX (K * LMAX)

static _Bool before(const E* x, const E* y) { return x->E_key < y->E_key; }       /* the comparator */
/* strict "x comes before y" of a stable merge: by key, then by (sequence, position) = tag */
static _Bool stable_before(const E* x, const E* y) { return x->E_key < y->E_key || (x->E_key == y->E_key && x->E_tag < y->E_tag); }

/* a0 = start of sequence i (arrays of LMAX + 1 elements), adv[i] = how far sequence i was consumed */
E* c_mm(Seq* seqs, E* target, uint64_t size, uint32_t mwma, E* base, uint64_t* len, uint32_t gi, uint32_t gp, uint32_t gj)
__CPROVER_requires(size <= TOTALMAX && gi < K + (K == 0) && gp < LMAX && gj < TOTALMAX + (K == 0))
__CPROVER_assigns(__CPROVER_object_whole(seqs), __CPROVER_object_whole(target), __CPROVER_object_whole(base), ir_live_allocs)
/* returns the end of the written range */
__CPROVER_ensures(__CPROVER_return_value == target + size)
/* every input's begin only moves forward, stays inside its sequence; ends are untouched; together they moved by `size` */
__CPROVER_ensures(K == 0 || (seqs[gi].f0 >= base + gi * (LMAX + 1) && seqs[gi].f0 <= base + gi * (LMAX + 1) + len[gi] && seqs[gi].f1 == base + gi * (LMAX + 1) + len[gi]))
__CPROVER_ensures(ir_live_allocs == __CPROVER_old(ir_live_allocs))
{ return w_mm(seqs, K, target, size, mwma); }

static uint64_t adv_of(const Seq* seqs, const E* base, unsigned i) { return (uint64_t)(seqs[i].f0 - (base + i * (LMAX + 1))); }

void HARNESS(void)
{
  INPUT_ARR(E, in_elems, K * (LMAX + 1)); INPUT_ARR(uint64_t, in_len, K); INPUT(uint64_t, in_size); INPUT(uint32_t, in_mwma);
  INPUT(uint32_t, in_gi); INPUT(uint32_t, in_gp); INPUT(uint32_t, in_gj); INPUT(uint32_t, in_gj2);
  /* arrays, not malloc'ed blocks: only then does `seqs_end - seqs_begin` (the k that selects the code path) fold to the
   * constant K during symbolic execution; with heap blocks every job contained every variant for every k */
  E base_arr[K * (LMAX + 1) + 1]; E out_arr[TOTALMAX + 1]; Seq seqs_arr[K + 1];
  E* base = base_arr; E* out = out_arr; Seq* seqs = seqs_arr;
  uint64_t total = 0;
#ifdef FIX_LENS      /* one job per tuple of lengths (digits of FIX_LENS in base 10, sequence 0 first) */
  { unsigned code_ = FIX_LENS; for (unsigned i = 0; i < K; i++) { in_len[K - 1 - i] = code_ % 10; code_ /= 10; } }
#endif
  for (unsigned i = 0; i < K; i++) {
    __CPROVER_assume(in_len[i] <= LMAX);
#ifdef NONEMPTY
    __CPROVER_assume(in_len[i] >= 1);
#endif
    for (unsigned p = 0; p <= LMAX; p++) {
      E* e = &base[i * (LMAX + 1) + p];
      *e = in_elems[i * (LMAX + 1) + p];
      e->E_tag = (uint8_t)(16 * i + p);
      if (p < in_len[i]) {
        __CPROVER_assume(e->E_key < SENT);
        if (p > 0) __CPROVER_assume(!before(e, e - 1));                 /* each sequence sorted by the comparator */
      }
#ifdef SENTINELS
      else if (p == in_len[i]) e->E_key = SENT;                           /* documented: followed by an element greater than all */
#endif
    }
    seqs[i].f0 = base + i * (LMAX + 1); seqs[i].f1 = seqs[i].f0 + in_len[i];
    total += in_len[i];
  }
  __CPROVER_assume(in_size <= total && in_gi < K + (K == 0) && in_gp < LMAX && in_gj < TOTALMAX + (K == 0) && in_gj2 < TOTALMAX + (K == 0));
#ifdef FIX_MWMA      /* one job per algorithm value (assigned): the variants are separate code paths */
  in_mwma = FIX_MWMA;
#endif
#ifdef FIX_SIZE
  in_size = FIX_SIZE;
#endif
  __CPROVER_assume(in_mwma <= 4);          /* MWMA_LOSER_TREE, _COMBINED, _SENTINEL, _BUBBLE and the default alias */
  ir_live_allocs = 0; ir_throw_allowed = 0;
  uint64_t lens[K]; for (unsigned i = 0; i < K; i++) lens[i] = in_len[i];

  c_mm(seqs, out, in_size, in_mwma, base, lens, in_gi, in_gp, in_gj);

  /* the rest of the statement is over the joint post-state of outputs and cursors (harness-level obligations) */
  uint64_t sum = 0; for (unsigned i = 0; i < K; i++) sum += adv_of(seqs, base, i);
  __CPROVER_assert(sum == in_size, "the inputs advanced by exactly size elements in total");
  /* output in non-decreasing order; stable variants: equal keys in (sequence, position) order */
  if (in_gj + 1 < in_size) {
    __CPROVER_assert(!before(&out[in_gj + 1], &out[in_gj]), "output is in non-decreasing order");
#if STABLE
    __CPROVER_assert(stable_before(&out[in_gj], &out[in_gj + 1]), "equivalent elements appear in (sequence, position) order");
#endif
  }
  /* every element taken from an input (position < advance) appears in the output exactly once, nothing else does */
  {
    E* e = &base[in_gi * (LMAX + 1) + in_gp];
    unsigned cnt = 0;
    for (unsigned j = 0; j < TOTALMAX; j++) if (j < in_size && out[j].E_tag == e->E_tag && out[j].E_key == e->E_key) cnt++;
    _Bool taken = in_gp < adv_of(seqs, base, in_gi);
    if (in_gp < in_len[in_gi]) __CPROVER_assert(cnt == (taken ? 1 : 0), "output = exactly the elements the inputs were advanced past");
    /* the smallest ones: nothing left behind is smaller than anything emitted (stable: nor equivalent and earlier) */
    if (in_gp < in_len[in_gi] && !taken && in_gj2 < in_size) {
      __CPROVER_assert(!before(e, &out[in_gj2]), "every element left in the inputs is not smaller than any emitted element");
#if STABLE
      __CPROVER_assert(stable_before(&out[in_gj2], e), "stable: an equivalent element left behind comes later in (sequence, position) order");
#endif
    }
  }
  /* every output element is one of the input elements (tag and key intact) */
  if (in_gj < in_size) {
    unsigned ti = out[in_gj].E_tag / 16, tp = out[in_gj].E_tag % 16;
    __CPROVER_assert(ti < K && tp < in_len[ti < K ? ti : 0] && out[in_gj].E_key == base[(ti < K ? ti : 0) * (LMAX + 1) + (tp <= LMAX ? tp : 0)].E_key, "every output element is an input element");
  }
  CANARY();
}
