/* C14 -- MD5 / SHA-1 / SHA-256 / SHA-512: digest equals the standard for every message and every chunking.
 * -DDG=0 MD5, 1 SHA-1, 2 SHA-256, 3 SHA-512.  Layers (DESIGN C14):
 *   OP_compress : the real compression function == the standard's compression function (spec/digest_spec.h), for every
 *                 state and every block
 *   OP_process  : process(data, size) from an arbitrary object state: the blocks handed to the compression function are
 *                 exactly the consecutive block-size slices of (buffered bytes ++ data), the rest stays buffered,
 *                 length_ counts the compressed bits.  The compression function is abstracted by a stub that logs the
 *                 byte fed at ONE symbolic stream offset (ghost g_off): proved for every offset.  BOUNDED: size <= SMAX.
 *   OP_finalize : finalize() feeds exactly the standard's padding of the buffered tail (0x80, zeros, bit length in the
 *                 standard's byte order), in one or two blocks, for every curlen_; the output is the state in the
 *                 standard's byte order.
 *   OP_init     : the initial state equals the standard's H0.
 * Chunking independence follows from OP_process: the abstract stream (blocks fed so far ++ buffered tail) after a call is
 * the stream before ++ data, whatever the split.  "digest(M) == standard" is then the definition of the hash as iterated
 * compression of the padded message (stated composition step). */
#include "verif.h"
#include "gen.h"
#include "digest_spec.h"
#if DG == 0
typedef struct S_class_tlx__MD5 D; typedef uint32_t WORD;
#define NSTATE 4
#define BLOCK 64
#define LITTLE 1
#define SPEC_COMPRESS spec_md5_compress
#define SPEC_H0 SPEC_MD5_H0
#elif DG == 1
typedef struct S_class_tlx__SHA1 D; typedef uint32_t WORD;
#define NSTATE 5
#define BLOCK 64
#define LITTLE 0
#define SPEC_COMPRESS spec_sha1_compress
#define SPEC_H0 SPEC_SHA1_H0
#elif DG == 2
typedef struct S_class_tlx__SHA256 D; typedef uint32_t WORD;
#define NSTATE 8
#define BLOCK 64
#define LITTLE 0
#define SPEC_COMPRESS spec_sha256_compress
#define SPEC_H0 SPEC_SHA256_H0
#else
typedef struct S_class_tlx__SHA512 D; typedef uint64_t WORD;
#define NSTATE 8
#define BLOCK 128
#define LITTLE 0
#define SPEC_COMPRESS spec_sha512_compress
#define SPEC_H0 SPEC_SHA512_H0
#endif
#define WB ((unsigned)sizeof(WORD))
#define LENFIELD (BLOCK / 8)               /* bytes reserved for the message length: 8 (64-byte blocks) / 16 (SHA-512) */
#define D_len(d) ((d)->f0)
#define D_state(d) ((d)->f1.a)
#define D_curlen(d) ((d)->f2)
#define D_buf(d) ((d)->f3.a)

/* clauses about the ghost block log exist only under the verifier (natively the real compression function runs) */
#ifdef NATIVE
#define GHOST(x) 1
#else
#define GHOST(x) (x)
#endif
/* ---- ghost block log of the compression stub ---- */
uint64_t g_nblocks; uint64_t g_off; _Bool g_seen; uint8_t g_byte;
WORD nondet_word(void);
#ifdef NATIVE
WORD nondet_word(void) { return 0; }
#endif
void uf_compress(WORD* state, uint8_t* buf)
{
  if (g_off / BLOCK == g_nblocks) { g_seen = 1; g_byte = buf[g_off % BLOCK]; }
  g_nblocks++;
  for (unsigned i = 0; i < NSTATE; i++) state[i] = nondet_word();   /* some function of (state, block) */
}

#if defined(OP_compress)
void c_compress(WORD* state, uint8_t* blk, unsigned g, WORD want)
__CPROVER_requires(g < NSTATE)
__CPROVER_assigns(__CPROVER_object_whole(state))
__CPROVER_ensures(state[g] == want)
{ w_dg_compress(state, blk); }
void HARNESS(void)
{
  INPUT_ARR(WORD, in_state, NSTATE); INPUT_ARR(uint8_t, in_blk, BLOCK); INPUT(unsigned, in_g);
  __CPROVER_assume(in_g < NSTATE);
  WORD ref[NSTATE];
  for (unsigned i = 0; i < NSTATE; i++) ref[i] = in_state[i];
  SPEC_COMPRESS(ref, in_blk);
  c_compress(in_state, in_blk, in_g, ref[in_g]);
  CANARY();
}

#elif defined(OP_init)
void c_init(D* d, unsigned g)
__CPROVER_requires(g < NSTATE)
__CPROVER_assigns(*d)
__CPROVER_ensures(D_state(d)[g] == SPEC_H0[g] && D_len(d) == 0 && D_curlen(d) == 0)
{ w_dg_init(d); }
void HARNESS(void) { D d; INPUT(unsigned, in_g); __CPROVER_assume(in_g < NSTATE); c_init(&d, in_g); CANARY(); }

#elif defined(OP_process)
#ifndef SMAX
#define SMAX (2 * BLOCK + 7)
#endif
/* stream = old buffered bytes ++ data; off = ghost stream offset, sb = stream[off]; tj = ghost tail index, tb = expected tail byte */
void c_process(D* d, uint8_t* data, uint32_t size, uint64_t off, uint8_t sb, uint32_t tj, uint8_t tb, uint32_t cur0, uint64_t len0)
__CPROVER_requires(D_curlen(d) < BLOCK && size <= SMAX && cur0 == D_curlen(d) && len0 == D_len(d) && len0 < (1ull << 60))
__CPROVER_requires(GHOST(g_nblocks == 0 && g_off == off && !g_seen) && off < cur0 + (uint64_t)size && tj < BLOCK)
__CPROVER_assigns(*d, g_nblocks, g_seen, g_byte)
__CPROVER_ensures(GHOST(g_nblocks == (cur0 + (uint64_t)size) / BLOCK))
__CPROVER_ensures(D_curlen(d) == (cur0 + (uint64_t)size) % BLOCK && D_len(d) == len0 + 8ull * BLOCK * ((cur0 + (uint64_t)size) / BLOCK))
/* the byte at stream offset off was fed to the compression function in its block, iff that block is complete */
__CPROVER_ensures(GHOST(off < g_nblocks * BLOCK ? (g_seen && g_byte == sb) : !g_seen))
/* what is not yet compressed is buffered, in order */
__CPROVER_ensures(tj >= D_curlen(d) || D_buf(d)[tj] == tb)
{ w_dg_process(d, data, size); }
static uint8_t stream_at(const D* d, uint32_t cur0, const uint8_t* data, uint64_t i) { return i < cur0 ? D_buf(d)[i] : data[i - cur0]; }
void HARNESS(void)
{
  INPUT(D, in_d); INPUT_ARR(uint8_t, in_data, SMAX); INPUT(uint32_t, in_size); INPUT(uint64_t, in_off); INPUT(uint32_t, in_tj);
#ifdef FIX_SIZE
  in_size = FIX_SIZE;
#endif
#ifdef FIX_CUR       /* one job per buffered length: constant buffer offsets keep the copy loops' array indices concrete */
  D_curlen(&in_d) = FIX_CUR;
#endif
  __CPROVER_assume(D_curlen(&in_d) < BLOCK && in_size <= SMAX && D_len(&in_d) < (1ull << 60));
  uint64_t total = D_curlen(&in_d) + (uint64_t)in_size;
  __CPROVER_assume(in_off < total && in_tj < BLOCK);
  uint8_t* data = malloc(SMAX); __CPROVER_assume(data != 0);
  for (unsigned i = 0; i < SMAX; i++) data[i] = in_data[i];
  uint64_t tpos = (total / BLOCK) * BLOCK + in_tj;
  uint8_t tb = tpos < total ? stream_at(&in_d, D_curlen(&in_d), data, tpos) : 0;
  g_nblocks = 0; g_off = in_off; g_seen = 0; g_byte = 0; ir_throw_allowed = 0;
  c_process(&in_d, data, in_size, in_off, stream_at(&in_d, D_curlen(&in_d), data, in_off), in_tj, tb, D_curlen(&in_d), D_len(&in_d));
  CANARY();
}

#elif defined(OP_finalize)
/* the standard's padding of a tail of cur bytes when `bits` message bits precede the end:
 * tail ++ 0x80 ++ 0.. ++ bits as a LENFIELD-byte integer (little endian for MD5, big endian otherwise), to a block boundary */
static uint8_t pad_at(const uint8_t* tail, uint32_t cur, uint64_t bits, uint64_t i)
{
  uint64_t plen = (cur + 1 + LENFIELD <= BLOCK) ? BLOCK : 2 * BLOCK;
  if (i >= plen) return 0;             /* beyond the padded tail (only asked for offsets that are not fed) */
  if (i < cur) return tail[i];
  if (i == cur) return 0x80;
  if (i < plen - LENFIELD) return 0;
  uint64_t k = i - (plen - LENFIELD);                      /* index inside the length field */
  if (LITTLE) return k < 8 ? (uint8_t)(bits >> (8 * k)) : 0;
  return k < LENFIELD - 8 ? 0 : (uint8_t)(bits >> (8 * (LENFIELD - 1 - k)));
}
void c_finalize(D* d, uint8_t* out, uint64_t off, uint8_t pb, unsigned g, unsigned gb, uint32_t cur0)
__CPROVER_requires(D_curlen(d) < BLOCK && cur0 == D_curlen(d) && D_len(d) < (1ull << 60))
__CPROVER_requires(GHOST(g_nblocks == 0 && g_off == off && !g_seen) && off < 2 * BLOCK && g < NSTATE && gb < WB)
__CPROVER_assigns(*d, __CPROVER_object_whole(out), g_nblocks, g_seen, g_byte)
/* one block if the tail, the 0x80 byte and the length field fit, else two */
__CPROVER_ensures(GHOST(g_nblocks == (cur0 + 1 + LENFIELD <= BLOCK ? 1 : 2)))
__CPROVER_ensures(GHOST(off < g_nblocks * BLOCK ? (g_seen && g_byte == pb) : !g_seen))
/* output = final state words in the standard's byte order */
__CPROVER_ensures(out[WB * g + gb] == (uint8_t)(D_state(d)[g] >> (8 * (LITTLE ? gb : WB - 1 - gb))))
{ w_dg_finalize(d, out); }
void HARNESS(void)
{
  INPUT(D, in_d); INPUT(uint64_t, in_off); INPUT(unsigned, in_g); INPUT(unsigned, in_gb);
  __CPROVER_assume(D_curlen(&in_d) < BLOCK && D_len(&in_d) < (1ull << 60) && in_off < 2 * BLOCK && in_g < NSTATE && in_gb < WB);
  uint8_t* out = malloc(NSTATE * WB); __CPROVER_assume(out != 0);
  uint8_t tail[BLOCK];
  for (unsigned i = 0; i < BLOCK; i++) tail[i] = D_buf(&in_d)[i];
  uint8_t pb = pad_at(tail, D_curlen(&in_d), D_len(&in_d) + 8ull * D_curlen(&in_d), in_off);
  g_nblocks = 0; g_off = in_off; g_seen = 0; g_byte = 0; ir_throw_allowed = 0;
  c_finalize(&in_d, out, in_off, pb, in_g, in_gb, D_curlen(&in_d));
  CANARY();
}
#else
#error "no OP_ selected"
#endif
