/* C20 -- contracts for the tlx integer math helpers.
 * One job = one real function (FN = its extern "C" forwarding wrapper from shims/math.cpp), selected by -DSPEC_<name>,
 * -DW=<bit width of the argument type>, -DSGN=<0|1> (argument type signed), -DRW=<bit width of the result type>.
 * All values are handled as unsigned bit patterns of width W (the extracted C is unsigned throughout); VAL() gives
 * the mathematical value as a signed 128-bit number.  Every ensures clause is the *defining property* of the
 * function from its documentation, never a second implementation of the same formula.
 * Domain restrictions are the mathematically undefined points only (log2 of x <= 0, round_up_to_power_of_two(0),
 * k <= 0 for div_ceil/round_up) and results that are not representable in the result type. */
#include "verif.h"
#include "gen.h"

#if W == 8
typedef uint8_t UT; typedef int8_t ST;
#elif W == 16
typedef uint16_t UT; typedef int16_t ST;
#elif W == 32
typedef uint32_t UT; typedef int32_t ST;
#elif W == 64
typedef uint64_t UT; typedef int64_t ST;
#endif
#ifndef RW
#define RW W
#endif
#if RW == 8
typedef uint8_t URT; typedef int8_t SRT;
#elif RW == 16
typedef uint16_t URT; typedef int16_t SRT;
#elif RW == 32
typedef uint32_t URT; typedef int32_t SRT;
#elif RW == 64
typedef uint64_t URT; typedef int64_t SRT;
#endif
typedef __int128 wide;
#if SGN
#define VAL(x) ((wide)(ST)(x))
#define RVAL(x) ((wide)(SRT)(x))
#define VBITS (W - 1)                 /* value bits of the type */
#define RMAX ((((wide)1) << (RW - 1)) - 1)
#define TMAX ((((wide)1) << (W - 1)) - 1)
#else
#define VAL(x) ((wide)(UT)(x))
#define RVAL(x) ((wide)(URT)(x))
#define VBITS W
#define RMAX ((((wide)1) << RW) - 1)
#define TMAX ((((wide)1) << W) - 1)
#endif
#define BIT(x, b) ((unsigned)(((uint64_t)(UT)(x) >> (b)) & 1u))

/* x == 2^k for some k (over the mathematical value) */
static _Bool spec_is_pow2(wide v)
{
  _Bool r = 0;
  for (unsigned k = 0; k < 64; k++)
    if (v == (((wide)1) << k)) r = 1;
  return r;
}

/* ------------------------------------------------------------------------------------------------ clz / ctz / ffs */
#if defined(SPEC_clz)
/* number of leading zero bits of the W-bit representation; W for 0 */
uint32_t c_fn(UT x)
__CPROVER_assigns()
__CPROVER_ensures(x == 0 ? __CPROVER_return_value == W
                         : (__CPROVER_return_value < W && ((uint64_t)x >> (W - 1 - __CPROVER_return_value)) == 1))
{ return FN(x); }
void HARNESS(void) { INPUT(UT, in_x); c_fn(in_x); CANARY(); }

#elif defined(SPEC_ctz)
/* number of trailing zero bits; W for 0 */
uint32_t c_fn(UT x)
__CPROVER_assigns()
__CPROVER_ensures(x == 0 ? __CPROVER_return_value == W
                         : (__CPROVER_return_value < W && BIT(x, __CPROVER_return_value) == 1 &&
                            ((uint64_t)x & ((((uint64_t)1) << __CPROVER_return_value) - 1)) == 0))
{ return FN(x); }
void HARNESS(void) { INPUT(UT, in_x); c_fn(in_x); CANARY(); }

#elif defined(SPEC_ffs)
/* one plus the index of the least significant set bit; 0 for 0 */
uint32_t c_fn(UT x)
__CPROVER_assigns()
__CPROVER_ensures(x == 0 ? __CPROVER_return_value == 0
                         : (__CPROVER_return_value >= 1 && __CPROVER_return_value <= W &&
                            BIT(x, __CPROVER_return_value - 1) == 1 &&
                            ((uint64_t)x & ((((uint64_t)1) << (__CPROVER_return_value - 1)) - 1)) == 0))
{ return FN(x); }
void HARNESS(void) { INPUT(UT, in_x); c_fn(in_x); CANARY(); }

/* ------------------------------------------------------------------------------------------------ popcount */
#elif defined(SPEC_popcount)
static unsigned spec_bitsum(UT x) { unsigned s = 0; for (unsigned b = 0; b < W; b++) s += BIT(x, b); return s; }
uint32_t c_fn(UT x)
__CPROVER_assigns()
__CPROVER_ensures(__CPROVER_return_value == spec_bitsum(x))
{ return FN(x); }
void HARNESS(void) { INPUT(UT, in_x); c_fn(in_x); CANARY(); }

#elif defined(SPEC_popcount_range)
/* BOUNDED: size <= PCR_MAX bytes.  number of one bits in data[0..size) */
#ifndef PCR_MAX
#define PCR_MAX 13
#endif
static uint64_t spec_range(const uint8_t* d, uint64_t n)
{ uint64_t s = 0; for (uint64_t i = 0; i < PCR_MAX; i++) if (i < n) for (unsigned b = 0; b < 8; b++) s += (d[i] >> b) & 1; return s; }
uint64_t c_fn(uint8_t* data, uint64_t size)
__CPROVER_requires(size <= PCR_MAX)
__CPROVER_assigns()
__CPROVER_ensures(__CPROVER_return_value == spec_range(data, size))
{ return FN(data, size); }
void HARNESS(void)
{
  INPUT_ARR(uint8_t, in_data, PCR_MAX); INPUT(uint64_t, in_size);
  __CPROVER_assume(in_size <= PCR_MAX);
  /* the real buffer has exactly in_size bytes so that any over-read is an out-of-bounds obligation */
  uint8_t* buf = malloc(in_size ? in_size : 1);
  __CPROVER_assume(buf != 0);
  for (uint64_t i = 0; i < PCR_MAX; i++) if (i < in_size) buf[i] = in_data[i];
  uint64_t r = c_fn(buf, in_size);
  CANARY();
}

/* ------------------------------------------------------------------------------------------------ integer log2 */
#elif defined(SPEC_log2floor)
/* for x > 0: 2^r <= x < 2^(r+1) */
uint32_t c_fn(UT x)
__CPROVER_requires(VAL(x) > 0)
__CPROVER_assigns()
__CPROVER_ensures(__CPROVER_return_value < W && ((uint64_t)x >> __CPROVER_return_value) == 1)
{ return FN(x); }
void HARNESS(void) { INPUT(UT, in_x); __CPROVER_assume(VAL(in_x) > 0); c_fn(in_x); CANARY(); }

#elif defined(SPEC_log2ceil)
/* for x >= 1: 2^(r-1) < x <= 2^r */
uint32_t c_fn(UT x)
__CPROVER_requires(VAL(x) >= 1)
__CPROVER_assigns()
__CPROVER_ensures(x == 1 ? __CPROVER_return_value == 0
                         : (__CPROVER_return_value >= 1 && __CPROVER_return_value <= W &&
                            ((uint64_t)(UT)(x - 1) >> (__CPROVER_return_value - 1)) == 1))
{ return FN(x); }
void HARNESS(void) { INPUT(UT, in_x); __CPROVER_assume(VAL(in_x) >= 1); c_fn(in_x); CANARY(); }

/* ------------------------------------------------------------------------------------------------ powers of two */
#elif defined(SPEC_ispow2)
_Bool c_fn(UT x)
__CPROVER_assigns()
__CPROVER_ensures(__CPROVER_return_value == spec_is_pow2(VAL(x)))
{ return FN(x); }
void HARNESS(void) { INPUT(UT, in_x); c_fn(in_x); CANARY(); }

#elif defined(SPEC_rup2)
/* smallest power of two >= n, for n >= 1, whenever it is representable in the type */
UT c_fn(UT n)
__CPROVER_requires(VAL(n) >= 1 && VAL(n) <= (((wide)1) << (VBITS - 1)))
__CPROVER_assigns()
__CPROVER_ensures(spec_is_pow2(VAL(__CPROVER_return_value)) && VAL(__CPROVER_return_value) >= VAL(n) &&
                  VAL(__CPROVER_return_value) / 2 < VAL(n))
{ return FN(n); }
void HARNESS(void) { INPUT(UT, in_n); __CPROVER_assume(VAL(in_n) >= 1 && VAL(in_n) <= (((wide)1) << (VBITS - 1))); c_fn(in_n); CANARY(); }

#elif defined(SPEC_rdown2)
/* largest power of two <= i, for i >= 1 (always representable) */
UT c_fn(UT i)
__CPROVER_requires(VAL(i) >= 1)
__CPROVER_assigns()
__CPROVER_ensures(spec_is_pow2(VAL(__CPROVER_return_value)) && VAL(__CPROVER_return_value) <= VAL(i) &&
                  VAL(i) / 2 < VAL(__CPROVER_return_value))
{ return FN(i); }
void HARNESS(void) { INPUT(UT, in_i); __CPROVER_assume(VAL(in_i) >= 1); c_fn(in_i); CANARY(); }

/* ------------------------------------------------------------------------------------------------ bswap / rotate */
#elif defined(SPEC_bswap)
/* byte g of the result is byte N-1-g of the argument, for every g (ghost byte index) */
UT c_fn(UT x, unsigned g)
__CPROVER_requires(g < W / 8)
__CPROVER_assigns()
__CPROVER_ensures((((uint64_t)__CPROVER_return_value >> (8 * g)) & 0xFF) == (((uint64_t)x >> (8 * (W / 8 - 1 - g))) & 0xFF))
{ return FN(x); }
void HARNESS(void) { INPUT(UT, in_x); INPUT(unsigned, in_g); __CPROVER_assume(in_g < W / 8); c_fn(in_x, in_g); CANARY(); }

#elif defined(SPEC_rol)
/* rotate left by i (any int, taken modulo W): bit b of x moves to bit (b + i) mod W, for every b (ghost bit index) */
UT c_fn(UT x, uint32_t i, unsigned b)
__CPROVER_requires(b < W)
__CPROVER_assigns()
__CPROVER_ensures(BIT(__CPROVER_return_value, (b + (i & (W - 1))) & (W - 1)) == BIT(x, b))
{ return FN(x, i); }
void HARNESS(void) { INPUT(UT, in_x); INPUT(uint32_t, in_i); INPUT(unsigned, in_b); __CPROVER_assume(in_b < W); c_fn(in_x, in_i, in_b); CANARY(); }

#elif defined(SPEC_ror)
/* rotate right by i: bit (b + i) mod W of x moves to bit b */
UT c_fn(UT x, uint32_t i, unsigned b)
__CPROVER_requires(b < W)
__CPROVER_assigns()
__CPROVER_ensures(BIT(__CPROVER_return_value, b) == BIT(x, (b + (i & (W - 1))) & (W - 1)))
{ return FN(x, i); }
void HARNESS(void) { INPUT(UT, in_x); INPUT(uint32_t, in_i); INPUT(unsigned, in_b); __CPROVER_assume(in_b < W); c_fn(in_x, in_i, in_b); CANARY(); }

/* ------------------------------------------------------------------------------------------------ div_ceil / round_up */
#elif defined(SPEC_div_ceil) || defined(SPEC_round_up)
/* the result type is decltype(n + k): int for the 8/16-bit instantiations (RW = 32, signed), else the operand type.
 * DOM selects the part of the domain (known findings are stated as input predicates, see known_findings.json):
 *   DOM=0  n >= 0, k >= 1 and n + k - 1 representable in the result type     -- must hold
 *   DOM=1  n >= 0, k >= 1 and n + k - 1 NOT representable (result is)         -- known finding div_ceil-overflow
 *   DOM=2  n < 0,  k >= 1 (signed only)                                       -- known finding div_ceil-negative */
#if (W < 32)
#define RSGN 1
#else
#define RSGN SGN
#endif
#if RSGN
#define RRVAL(x) ((wide)(SRT)(x))
#define RRMAX ((((wide)1) << (RW - 1)) - 1)
#else
#define RRVAL(x) ((wide)(URT)(x))
#define RRMAX ((((wide)1) << RW) - 1)
#endif
#if DOM == 0
#define DOMAIN(n, k) (VAL(n) >= 0 && VAL(k) >= 1 && VAL(n) + VAL(k) - 1 <= RRMAX)
#elif DOM == 1
#define DOMAIN(n, k) (VAL(n) >= 0 && VAL(k) >= 1 && VAL(n) + VAL(k) - 1 > RRMAX)
#else
#define DOMAIN(n, k) (VAL(n) < 0 && VAL(k) >= 1)
#endif
/* products are formed once, in a type that cannot overflow: unsigned 128 bit for unsigned operands, signed for signed */
#if SGN
typedef __int128 pw;
#define PV(x) ((pw)(ST)(x))
#define PRV(x) ((pw)(SRT)(x))
#else
typedef unsigned __int128 pw;
#define PV(x) ((pw)(UT)(x))
#if RSGN
#define PRV(x) ((pw)(SRT)(x))
#else
#define PRV(x) ((pw)(URT)(x))
#endif
#endif
#if defined(SPEC_div_ceil)
/* q = ceil(n / k)  <=>  (q - 1) * k < n <= q * k  <=>  q*k < n + k  and  n <= q*k   (q always representable).
 * Written with the single product q*k: this is the form the SAT back end (CaDiCaL) decides at 64 bit. */
static _Bool spec_is_ceil_quot(pw q, pw n, pw k) { pw P = q * k; return P < n + k && n <= P; }
URT c_fn(UT n, UT k)
__CPROVER_requires(DOMAIN(n, k))
__CPROVER_assigns()
__CPROVER_ensures((DOM == 2 || RRVAL(__CPROVER_return_value) >= 0) && spec_is_ceil_quot(PRV(__CPROVER_return_value), PV(n), PV(k)))
{ return FN(n, k); }
#else
/* m = smallest multiple of k that is >= n, whenever m is representable:  m >= n, m - n < k, and k divides m.
 * RU_MULT=0 drops the divisibility clause (32/64-bit jobs: `m % k == 0` is a second, differently shaped division that
 * no installed back end decides; those jobs are labelled partial). */
#ifndef RU_MULT
#define RU_MULT 1
#endif
URT c_fn(UT n, UT k)
__CPROVER_requires(DOMAIN(n, k) && VAL(n) + VAL(k) - 1 - ((VAL(n) + VAL(k) - 1) % VAL(k)) <= RRMAX)
__CPROVER_assigns()
__CPROVER_ensures(RRVAL(__CPROVER_return_value) >= VAL(n) && RRVAL(__CPROVER_return_value) - VAL(n) < VAL(k))
__CPROVER_ensures(!RU_MULT || RRVAL(__CPROVER_return_value) % VAL(k) == 0)
{ return FN(n, k); }
#endif
void HARNESS(void)
{
  INPUT(UT, in_n); INPUT(UT, in_k);
  __CPROVER_assume(DOMAIN(in_n, in_k));
#if defined(SPEC_round_up)
  __CPROVER_assume(VAL(in_n) + VAL(in_k) - 1 - ((VAL(in_n) + VAL(in_k) - 1) % VAL(in_k)) <= RRMAX);
#endif
  c_fn(in_n, in_k); CANARY();
}

/* ------------------------------------------------------------------------------------------------ abs_diff / sgn */
#elif defined(SPEC_abs_diff)
/* |a - b| whenever representable */
static wide spec_absd(wide a, wide b) { return a > b ? a - b : b - a; }
UT c_fn(UT a, UT b)
__CPROVER_requires(spec_absd(VAL(a), VAL(b)) <= TMAX)
__CPROVER_assigns()
__CPROVER_ensures(VAL(__CPROVER_return_value) >= 0 &&
                  (VAL(a) >= VAL(b) ? VAL(b) + VAL(__CPROVER_return_value) == VAL(a) : VAL(a) + VAL(__CPROVER_return_value) == VAL(b)))
{ return FN(a, b); }
void HARNESS(void) { INPUT(UT, in_a); INPUT(UT, in_b); __CPROVER_assume(spec_absd(VAL(in_a), VAL(in_b)) <= TMAX); c_fn(in_a, in_b); CANARY(); }

#elif defined(SPEC_sgn)
uint32_t c_fn(UT a)
__CPROVER_assigns()
__CPROVER_ensures((int32_t)__CPROVER_return_value == (VAL(a) > 0 ? 1 : (VAL(a) < 0 ? -1 : 0)))
{ return FN(a); }
void HARNESS(void) { INPUT(UT, in_a); c_fn(in_a); CANARY(); }

#else
#error "no SPEC_ selected"
#endif
