/* C11 (SAFETY FRAGMENT ONLY) -- Semaphore and ThreadBarrierMutex as monitor code.
 * Model: the mutex is a ghost flag, condition_variable::wait(lock) is "other threads run": it requires the lock and
 * havocs the state the mutex protects; notify_one / notify_all are ghost events.  What is decided per function, for
 * all size_t values: which state a call returns from, by how much it changes the value, that the lock is held while
 * the state is touched and released on return, that the barrier action runs once, by the last arriver, before the
 * notification.  NOT decided (schedule properties): no stranded waiter, barrier generations across threads.
 * BOUNDED: at most WMAX wake-ups per blocking call (the stub forces the waited-for condition on wake-up WMAX). */
#include "verif.h"
#include "gen.h"
typedef struct S_class_tlx__Semaphore Sem;
typedef struct S_class_tlx__ThreadBarrierMutex Bar;
#define S_value(s) ((s)->f0)
#define B_count(b) ((b)->f0)
#define B_counts(b) ((b)->f3.a)
#define B_step(b) ((b)->f4)
#ifndef WMAX
#define WMAX 2
#endif
uint64_t nondet_u64(void);
_Bool g_held; unsigned g_locks, g_unlocks, g_notify_one, g_notify_all, g_waits, g_actions;
_Bool g_touched_unlocked;          /* a notification or wait happened without the lock */
_Bool g_action_before_notify;      /* the barrier action ran before notify_all */
uint64_t g_last_seen;              /* value observed after the last wake-up (semaphore) */
Sem* g_sem; Bar* g_bar; uint64_t g_need; uint64_t g_cur;
#ifndef NATIVE
uint32_t pthread_mutex_lock(struct S_union_pthread_mutex_t* m) { __CPROVER_assert(!g_held, "mutex is not locked twice"); g_held = 1; g_locks++; return 0; }
uint32_t pthread_mutex_unlock(struct S_union_pthread_mutex_t* m) { __CPROVER_assert(g_held, "only a held mutex is unlocked"); g_held = 0; g_unlocks++; return 0; }
void _ZNSt18condition_variable10notify_oneEv(struct S_class_std__condition_variable* cv) { g_notify_one++; }
void _ZNSt18condition_variable10notify_allEv(struct S_class_std__condition_variable* cv) { g_notify_all++; if (g_actions == 1) g_action_before_notify = 1; }
void _ZNSt18condition_variable4waitERSt11unique_lockISt5mutexE(struct S_class_std__condition_variable* cv, struct S_class_std__unique_lock* l)
{
  __CPROVER_assert(g_held, "condition_variable::wait is called with the lock held");
  g_waits++;
  /* other threads run while this one sleeps: the protected state changes arbitrarily */
  if (g_sem) { S_value(g_sem) = nondet_u64(); if (g_waits >= WMAX) __CPROVER_assume(S_value(g_sem) >= g_need); g_last_seen = S_value(g_sem); }
  if (g_bar) { B_counts(g_bar)[g_cur] = nondet_u64(); if (g_waits >= WMAX) __CPROVER_assume(B_counts(g_bar)[g_cur] >= B_count(g_bar)); g_last_seen = B_counts(g_bar)[g_cur]; }
}
void vf_barrier_action(void) { g_actions++; __CPROVER_assert(g_held, "the barrier action runs inside the critical section"); __CPROVER_assert(g_notify_all == 0, "the barrier action runs before anyone is released"); }
#endif
#define RESET() do { g_held = 0; g_locks = g_unlocks = g_notify_one = g_notify_all = g_waits = g_actions = 0; g_action_before_notify = 0; g_sem = 0; g_bar = 0; ir_throw_allowed = 0; } while (0)

#if defined(OP_signal)
uint64_t c_signal(Sem* s, uint64_t n, _Bool one)
__CPROVER_requires(S_value(s) <= (uint64_t)-1 - (one ? 1 : n))
__CPROVER_assigns(*s, g_held, g_locks, g_unlocks, g_notify_one, g_notify_all)
__CPROVER_ensures(S_value(s) == __CPROVER_old(S_value(s)) + (one ? 1 : n) && __CPROVER_return_value == S_value(s))
__CPROVER_ensures(!g_held && g_locks == 1 && g_unlocks == 1 && g_notify_one + g_notify_all == 1 && (one || g_notify_all == 1))
{ return one ? w_sem_signal(s) : w_sem_signal_n(s, n); }
void HARNESS(void) { INPUT(Sem, in_s); INPUT(uint64_t, in_n); INPUT(_Bool, in_one); RESET(); __CPROVER_assume(S_value(&in_s) <= (uint64_t)-1 - (in_one ? 1 : in_n)); c_signal(&in_s, in_n, in_one); CANARY(); }

#elif defined(OP_wait)
/* wait(delta, slack) returns only from a state in which value >= delta + slack was observed under the lock, and takes
 * exactly delta; OVERFLOW=0: delta + slack representable (must hold); OVERFLOW=1: known finding (sum wraps) */
uint64_t c_wait(Sem* s, uint64_t delta, uint64_t slack, uint64_t v0)
__CPROVER_requires(v0 == S_value(s) && (OVERFLOW ? delta + slack < delta : delta + slack >= delta))
__CPROVER_assigns(*s, g_held, g_locks, g_unlocks, g_waits, g_last_seen)
__CPROVER_ensures(!g_held && g_locks == 1 && g_unlocks == 1)
/* the value seen last (initially, or after the last wake-up) covered the request, and exactly delta was taken from it */
__CPROVER_ensures((g_waits == 0 ? v0 : g_last_seen) >= delta && (g_waits == 0 ? v0 : g_last_seen) - delta >= slack)
__CPROVER_ensures(S_value(s) == (g_waits == 0 ? v0 : g_last_seen) - delta && __CPROVER_return_value == S_value(s))
{ return w_sem_wait(s, delta, slack); }
void HARNESS(void)
{
  INPUT(Sem, in_s); INPUT(uint64_t, in_delta); INPUT(uint64_t, in_slack);
  RESET(); g_sem = &in_s; g_need = in_delta + in_slack;
  __CPROVER_assume(OVERFLOW ? in_delta + in_slack < in_delta : in_delta + in_slack >= in_delta);
  c_wait(&in_s, in_delta, in_slack, S_value(&in_s)); CANARY();
}

#elif defined(OP_try_acquire)
_Bool c_try(Sem* s, uint64_t delta, uint64_t slack, uint64_t v0)
__CPROVER_requires(v0 == S_value(s) && delta + slack >= delta)
__CPROVER_assigns(*s, g_held, g_locks, g_unlocks)
__CPROVER_ensures(!g_held && g_locks == 1 && g_unlocks == 1 && g_waits == 0)
__CPROVER_ensures(__CPROVER_return_value == (v0 >= delta + slack) && S_value(s) == (v0 >= delta + slack ? v0 - delta : v0))
{ return w_sem_try_acquire(s, delta, slack); }
void HARNESS(void)
{
  INPUT(Sem, in_s); INPUT(uint64_t, in_delta); INPUT(uint64_t, in_slack);
  RESET(); __CPROVER_assume(in_delta + in_slack >= in_delta);
  c_try(&in_s, in_delta, in_slack, S_value(&in_s)); CANARY();
}

#elif defined(OP_barrier)
/* one arrival at the barrier, from any consistent counter state (counts_[step_] < thread_count_) */
void c_barrier(Bar* b, uint64_t cur, uint64_t c0)
__CPROVER_requires(B_step(b) <= 1 && cur == B_step(b) && c0 == B_counts(b)[cur] && c0 < B_count(b))
__CPROVER_assigns(*b, g_held, g_locks, g_unlocks, g_waits, g_notify_all, g_actions, g_last_seen, g_action_before_notify)
__CPROVER_ensures(!g_held && g_locks == 1 && g_unlocks == 1)
/* last arriver: flips the generation, resets the NEXT generation's counter, runs the action once before notify_all */
__CPROVER_ensures(c0 + 1 < B_count(b) || (B_step(b) == 1 - cur && B_counts(b)[1 - cur] == 0 && g_actions == 1 && g_notify_all == 1 && g_waits == 0))
/* not the last: no action, no notification; returns only after seeing the counter of ITS generation reach thread_count_ */
__CPROVER_ensures(c0 + 1 >= B_count(b) || (g_actions == 0 && g_notify_all == 0 && g_waits >= 1 && g_last_seen >= B_count(b)))
{ w_bar_wait(b); }
void HARNESS(void)
{
  INPUT(Bar, in_b);
  RESET(); g_bar = &in_b;
  __CPROVER_assume(B_step(&in_b) <= 1 && B_counts(&in_b)[B_step(&in_b)] < B_count(&in_b));
  g_cur = B_step(&in_b);
  c_barrier(&in_b, g_cur, B_counts(&in_b)[g_cur]); CANARY();
}
#else
#error "no OP_ selected"
#endif
