/* C01 / C02 -- B+ tree containers (btree_set / btree_multiset over int keys; LS leaf slots, IS inner slots).
 *
 * Every public operation is enforced from an ARBITRARY well-formed tree of depth <= 2 (empty, a single root leaf, or a
 * root inner node with 2..IS+1 leaves): symbolic shape, fill degrees and keys.
 *   bt_wf(t)   = the conditions of BTree::verify(): uniform depth, every non-root node at least half full, keys ordered
 *                within and across nodes, each separator equal to the largest key below it, leaf chain linked both
 *                ways with correct head/tail, stats (size, leaves, inner nodes) equal to the structure      [C02]
 *   view       = multiset of keys in leaf-chain order; stated through count(g) for a ghost key g and rank(k) = number
 *                of keys ordered before k                                                                    [C01]
 *   ledger     = ir_live_allocs (blocks obtained from operator new and not returned) changes exactly by the change
 *                of the node count; freed nodes are never touched (CBMC pointer checks)                      [C02]
 * BOUNDED: depth <= 2 before the operation (so at most (IS+1)*LS keys); post-states of depth <= 2 as well: the
 * insert jobs therefore assume a root that is not full (growth to depth 3 is not covered here). */
#include "verif.h"
#include "gen.h"
typedef LEAF_T Leaf; typedef INNER_T Inner; typedef NODE_T Node; typedef BT_T BT;
#define ROOT(t) ((t)->f0.f0)
#define HEADL(t) ((t)->f0.f1)
#define TAILL(t) ((t)->f0.f2)
#define ST_SIZE(t) ((t)->f0.f3.f0)
#define ST_LEAVES(t) ((t)->f0.f3.f1)
#define ST_INNER(t) ((t)->f0.f3.f2)
#define N_LEVEL(n) ((n)->f0.f0)
#define N_USE(n) ((n)->f0.f1)
#define NODE_LEVEL(n) ((n)->f0)     /* on a base `node*` */
#define NODE_USE(n) ((n)->f1)
/* LeafNode with 8-bit keys: { node f0; pad f1; prev_leaf f2; next_leaf f3; slotdata f4; pad f5 } (clang's explicit padding) */
#define L_PREV(l) ((l)->f2)
#define L_NEXT(l) ((l)->f3)
typedef uint8_t key_t_;       /* key type of the shim */
#define L_KEY(l, i) ((key_t_)(l)->f4.a[i])
#define I_KEY(n, i) ((key_t_)(n)->f1.a[i])
#define I_CHILD(n, i) ((n)->f2.a[i])
#define LMIN (LS / 2)
#define IMIN (IS / 2)
#if GREATER
#define LESS(a, b) ((a) > (b))
#else
#define LESS(a, b) ((a) < (b))
#endif
struct Pos { uint8_t* leaf; uint16_t slot; };
#define POS_T struct S_struct_Pos

/* ---- well-formedness ---- */
static _Bool leaf_sorted(const Leaf* l)
{
  unsigned n = N_USE(l);
  for (unsigned i = 0; i + 1 < LS; i++)
    if (i + 1 < n && (MULTI ? LESS(L_KEY(l, i + 1), L_KEY(l, i)) : !LESS(L_KEY(l, i), L_KEY(l, i + 1)))) return 0;
  return 1;
}
static _Bool bt_wf(const BT* t)
{
  Node* r = ROOT(t);
  if (r == 0) return HEADL(t) == 0 && TAILL(t) == 0 && ST_SIZE(t) == 0 && ST_LEAVES(t) == 0 && ST_INNER(t) == 0;
  if (NODE_LEVEL(r) == 0) {
    Leaf* l = (Leaf*)r;
    return N_USE(l) >= 1 && N_USE(l) <= LS && L_PREV(l) == 0 && L_NEXT(l) == 0 && HEADL(t) == l && TAILL(t) == l && leaf_sorted(l) &&
           ST_SIZE(t) == N_USE(l) && ST_LEAVES(t) == 1 && ST_INNER(t) == 0;
  }
  if (NODE_LEVEL(r) != 1) return 0;
  Inner* in = (Inner*)r;
  unsigned k = N_USE(in);
  if (!(k >= 1 && k <= IS)) return 0;
  uint64_t total = 0;
  for (unsigned i = 0; i <= IS; i++) if (i <= k) {
    Leaf* l = (Leaf*)I_CHILD(in, i);
    if (l == 0 || N_LEVEL(l) != 0 || N_USE(l) < LMIN || N_USE(l) > LS || !leaf_sorted(l)) return 0;
    if (L_PREV(l) != (i == 0 ? (Leaf*)0 : (Leaf*)I_CHILD(in, i - 1))) return 0;
    if (L_NEXT(l) != (i == k ? (Leaf*)0 : (Leaf*)I_CHILD(in, i + 1))) return 0;
    if (i < k) {
      /* separator == largest key below it; next leaf starts after it */
      Leaf* nx = (Leaf*)I_CHILD(in, i + 1);
      if (I_KEY(in, i) != L_KEY(l, N_USE(l) - 1)) return 0;
      if (nx == 0 || N_USE(nx) == 0 || N_USE(nx) > LS) return 0;
      if (MULTI ? LESS(L_KEY(nx, 0), I_KEY(in, i)) : !LESS(I_KEY(in, i), L_KEY(nx, 0))) return 0;
    }
    total += N_USE(l);
  }
  return HEADL(t) == (Leaf*)I_CHILD(in, 0) && TAILL(t) == (Leaf*)I_CHILD(in, k) && ST_SIZE(t) == total && ST_LEAVES(t) == k + 1 && ST_INNER(t) == 1;
}
static Leaf* nth_leaf(const BT* t, unsigned i)
{
  Node* r = ROOT(t);
  if (r == 0) return 0;
  if (NODE_LEVEL(r) == 0) return i == 0 ? (Leaf*)r : 0;
  Inner* in = (Inner*)r;
  return i <= N_USE(in) ? (Leaf*)I_CHILD(in, i) : 0;
}
/* number of stored keys equivalent to g / ordered before g / not ordered after g */
static uint64_t bt_count(const BT* t, key_t_ g, int mode)
{
  uint64_t c = 0;
  for (unsigned i = 0; i <= IS; i++) {
    Leaf* l = nth_leaf(t, i);
    if (l) for (unsigned s = 0; s < LS; s++) if (s < N_USE(l)) {
      key_t_ k = L_KEY(l, s);
      if (mode == 0 ? (!LESS(k, g) && !LESS(g, k)) : (mode == 1 ? LESS(k, g) : !LESS(g, k))) c++;
    }
  }
  return c;
}
static uint64_t bt_nodes(const BT* t) { return ST_LEAVES(t) + ST_INNER(t); }
/* index in leaf-chain order of an iterator position; end() has index size */
static uint64_t pos_index(const BT* t, const uint8_t* leaf, unsigned slot)
{
  uint64_t idx = 0;
  for (unsigned i = 0; i <= IS; i++) {
    Leaf* l = nth_leaf(t, i);
    if (l) { if ((const uint8_t*)l == leaf) return idx + slot; idx += N_USE(l); }
  }
  return (uint64_t)-1;
}

/* -DFIX_SHAPE=<0|1|2> [-DFIX_RUSE=<root slotuse>]: one job per tree shape; assigned (not assumed) so that the pointer
 * structure of the tree is concrete for the verifier (mutating operations run out of memory on a symbolic shape) */
#ifdef FIX_SHAPE
#ifdef FIX_RUSE
#define FIX_SHAPE_ in_shape = FIX_SHAPE; N_USE(&in_root) = FIX_RUSE;
#else
#define FIX_SHAPE_ in_shape = FIX_SHAPE;
#endif
#else
#define FIX_SHAPE_
#endif
/* -DFIX_FILLS=<digits>: fill degree of each leaf (leaf 0 = leftmost digit), assigned */
#ifdef FIX_FILLS
#define FIX_FILLS_ { unsigned code_ = FIX_FILLS; unsigned nl_ = (in_shape == 2 ? N_USE(&in_root) + 1 : 1); for (unsigned i_ = 0; i_ < nl_; i_++) { N_USE(lf[nl_ - 1 - i_]) = code_ % 10; code_ /= 10; } }
#else
#define FIX_FILLS_
#endif
/* ---- arbitrary tree of depth <= 2 in separately allocated nodes ---- */
#define MK_TREE()                                                                                         \
  BT tr; INPUT(unsigned, in_shape); INPUT(Inner, in_root); INPUT_ARR(Leaf, in_leaf, IS + 1);               \
  FIX_SHAPE_ __CPROVER_assume(in_shape <= 2);                                                                        \
  Leaf* lf[IS + 1]; for (unsigned i_ = 0; i_ <= IS; i_++) { lf[i_] = malloc(sizeof(Leaf)); __CPROVER_assume(lf[i_] != 0); *lf[i_] = in_leaf[i_]; N_LEVEL(lf[i_]) = 0; } FIX_FILLS_ \
  Inner* rt = malloc(sizeof(Inner)); __CPROVER_assume(rt != 0); *rt = in_root; N_LEVEL(rt) = 1;          \
  for (unsigned i_ = 0; i_ <= IS; i_++) { I_CHILD(rt, i_) = (Node*)lf[i_]; L_PREV(lf[i_]) = i_ ? lf[i_ - 1] : 0; L_NEXT(lf[i_]) = (i_ < IS && i_ < N_USE(rt)) ? lf[i_ + 1] : 0; } \
  if (in_shape == 0) { ROOT(&tr) = 0; HEADL(&tr) = 0; TAILL(&tr) = 0; }                                    \
  else if (in_shape == 1) { __CPROVER_assume(N_LEVEL(lf[0]) == 0); ROOT(&tr) = (Node*)lf[0]; HEADL(&tr) = lf[0]; TAILL(&tr) = lf[0]; L_NEXT(lf[0]) = 0; } \
  else { __CPROVER_assume(N_LEVEL(rt) == 1 && N_USE(rt) >= 1 && N_USE(rt) <= IS); ROOT(&tr) = (Node*)rt; HEADL(&tr) = lf[0]; TAILL(&tr) = lf[N_USE(rt)]; } \
  INPUT(uint64_t, in_size); INPUT(uint64_t, in_leaves); INPUT(uint64_t, in_inner);                          \
  ST_SIZE(&tr) = in_size; ST_LEAVES(&tr) = in_leaves; ST_INNER(&tr) = in_inner;                            \
  __CPROVER_assume(bt_wf(&tr));                                                                           \
  ir_live_allocs = bt_nodes(&tr); ir_throw_allowed = 0;
#define BT_FRAME __CPROVER_assigns(*t, __CPROVER_object_whole(n0), __CPROVER_object_whole(n1), __CPROVER_object_whole(n2), __CPROVER_object_whole(n3), __CPROVER_object_whole(n4), __CPROVER_object_whole(n5), ir_live_allocs) __CPROVER_frees(n0, n1, n2, n3, n4, n5)
#define NODE_ARGS uint8_t* n0, uint8_t* n1, uint8_t* n2, uint8_t* n3, uint8_t* n4, uint8_t* n5
#define NODE_VALS (uint8_t*)rt, (uint8_t*)lf[0], (uint8_t*)lf[1], (uint8_t*)lf[2], (uint8_t*)lf[3], (uint8_t*)lf[4]
#if IS != 4
#error "the frame lists the root and five leaves: IS must be 4 (other inner capacities: extend NODE_ARGS)"
#endif

#if defined(OP_insert)
/* insert(k): multiset gains k (set: unless present); invariants; the returned iterator designates k */
_Bool c_insert(BT* t, key_t_ k, struct Pos* at, key_t_ g, uint64_t cg, uint64_t ck, uint64_t nodes0, uint8_t* n0, uint8_t* n1, uint8_t* n2, uint8_t* n3, uint8_t* n4, uint8_t* n5)
__CPROVER_requires(bt_wf(t) && cg == bt_count(t, g, 0) && ck == bt_count(t, k, 0) && nodes0 == bt_nodes(t) && ir_live_allocs == nodes0)
__CPROVER_requires(ROOT(t) == 0 || NODE_LEVEL(ROOT(t)) == 0 || NODE_USE(ROOT(t)) < IS)      /* post-state stays within depth 2 */
__CPROVER_assigns(*t, *at, __CPROVER_object_whole(n0), __CPROVER_object_whole(n1), __CPROVER_object_whole(n2), __CPROVER_object_whole(n3), __CPROVER_object_whole(n4), __CPROVER_object_whole(n5), ir_live_allocs)
__CPROVER_ensures(bt_wf(t))
__CPROVER_ensures(__CPROVER_return_value == (MULTI || ck == 0))
__CPROVER_ensures(bt_count(t, g, 0) == cg + ((!LESS(g, k) && !LESS(k, g)) && (MULTI || ck == 0)))
__CPROVER_ensures(at->leaf != 0 && at->slot < N_USE((Leaf*)at->leaf) && !LESS(L_KEY((Leaf*)at->leaf, at->slot), k) && !LESS(k, L_KEY((Leaf*)at->leaf, at->slot)))
__CPROVER_ensures(pos_index(t, at->leaf, at->slot) != (uint64_t)-1)
__CPROVER_ensures(ir_live_allocs == bt_nodes(t))
{ return w_bt_insert(t, k, 0, (POS_T*)at); }
void HARNESS(void)
{
  MK_TREE() INPUT(key_t_, in_k); INPUT(key_t_, in_g); struct Pos at;
  __CPROVER_assume(in_shape != 2 || N_USE(rt) < IS);
  c_insert(&tr, in_k, &at, in_g, bt_count(&tr, in_g, 0), bt_count(&tr, in_k, 0), bt_nodes(&tr), NODE_VALS);
  CANARY();
}

#elif defined(OP_erase)
/* KIND 0: erase_one(k) removes one occurrence if present; KIND 1: erase(k) removes all occurrences and returns their number */
uint64_t c_erase(BT* t, key_t_ k, key_t_ g, uint64_t cg, uint64_t ck, uint8_t* n0, uint8_t* n1, uint8_t* n2, uint8_t* n3, uint8_t* n4, uint8_t* n5)
__CPROVER_requires(bt_wf(t) && cg == bt_count(t, g, 0) && ck == bt_count(t, k, 0) && ir_live_allocs == bt_nodes(t))
BT_FRAME
__CPROVER_ensures(bt_wf(t))
__CPROVER_ensures(KIND == 0 ? (__CPROVER_return_value != 0) == (ck > 0) : __CPROVER_return_value == ck)
__CPROVER_ensures(bt_count(t, g, 0) == ((!LESS(g, k) && !LESS(k, g)) ? (KIND == 0 ? ck - (ck > 0) : 0) : cg))
__CPROVER_ensures(ir_live_allocs == bt_nodes(t))
{ return KIND == 0 ? (uint64_t)w_bt_erase_one(t, k) : w_bt_erase(t, k); }
void HARNESS(void)
{
  MK_TREE() INPUT(key_t_, in_k); INPUT(key_t_, in_g);
  c_erase(&tr, in_k, in_g, bt_count(&tr, in_g, 0), bt_count(&tr, in_k, 0), NODE_VALS);
  CANARY();
}

#elif defined(OP_erase_iter)
/* erase(iterator): exactly the designated element disappears */
void c_erase_iter(BT* t, uint8_t* leaf, uint16_t slot, key_t_ k, key_t_ g, uint64_t cg, uint64_t ck, uint64_t sz, uint8_t* n0, uint8_t* n1, uint8_t* n2, uint8_t* n3, uint8_t* n4, uint8_t* n5)
__CPROVER_requires(bt_wf(t) && pos_index(t, leaf, slot) != (uint64_t)-1 && slot < N_USE((Leaf*)leaf) && k == L_KEY((Leaf*)leaf, slot))
__CPROVER_requires(cg == bt_count(t, g, 0) && ck == bt_count(t, k, 0) && sz == ST_SIZE(t) && ir_live_allocs == bt_nodes(t))
BT_FRAME
__CPROVER_ensures(bt_wf(t) && ST_SIZE(t) == sz - 1)
__CPROVER_ensures(bt_count(t, g, 0) == ((!LESS(g, k) && !LESS(k, g)) ? ck - 1 : cg))
__CPROVER_ensures(ir_live_allocs == bt_nodes(t))
{ w_bt_erase_iter(t, leaf, slot); }
void HARNESS(void)
{
  MK_TREE() INPUT(unsigned, in_li); INPUT(uint16_t, in_slot); INPUT(key_t_, in_g);
#ifdef FIX_LI        /* one job per designated position (leaf number, slot): assigned, not assumed */
  in_li = FIX_LI; in_slot = FIX_SLOT;
#endif
  __CPROVER_assume(in_shape != 0 && in_li <= IS);
  Leaf* l = nth_leaf(&tr, in_li);
  __CPROVER_assume(l != 0 && in_slot < N_USE(l));
  key_t_ k = L_KEY(l, in_slot);
  c_erase_iter(&tr, (uint8_t*)l, in_slot, k, in_g, bt_count(&tr, in_g, 0), bt_count(&tr, k, 0), ST_SIZE(&tr), NODE_VALS);
  CANARY();
}

#elif defined(OP_lookup)
/* exists / count / find / lower_bound / upper_bound / begin / end / size / empty against the view; nothing is modified */
void c_lookup(BT* t, key_t_ k, struct Pos* p)
__CPROVER_requires(bt_wf(t))
__CPROVER_assigns(*p)
__CPROVER_ensures(w_bt_exists(t, k) == (bt_count(t, k, 0) > 0) && w_bt_count(t, k) == bt_count(t, k, 0))
__CPROVER_ensures(w_bt_size(t) == ST_SIZE(t) && w_bt_empty(t) == (ST_SIZE(t) == 0))
{ w_bt_exists(t, k); }
void c_bound(BT* t, key_t_ k, struct Pos* p, unsigned which)
__CPROVER_requires(bt_wf(t) && which <= 4)
__CPROVER_assigns(*p)
/* the position returned is the one whose index in leaf-chain order is: lower_bound -> rank(k) = #keys before k,
 * upper_bound -> #keys not after k, find -> rank(k) if present else size, begin -> 0, end -> size */
__CPROVER_ensures(pos_index(t, p->leaf, p->slot) ==
                  (ST_SIZE(t) == 0 ? (uint64_t)-1 :
                   which == 0 ? bt_count(t, k, 1) : which == 1 ? bt_count(t, k, 2) :
                   which == 2 ? (bt_count(t, k, 0) > 0 ? bt_count(t, k, 1) : ST_SIZE(t)) : which == 3 ? 0 : ST_SIZE(t)))
__CPROVER_ensures(ST_SIZE(t) != 0 || p->leaf == 0)
/* the position is a canonical iterator: it designates an element, or it is end() = (tail leaf, one past its last slot) */
__CPROVER_ensures(ST_SIZE(t) == 0 || p->slot < N_USE((Leaf*)p->leaf) || (p->leaf == (uint8_t*)TAILL(t) && p->slot == N_USE((Leaf*)p->leaf)))
{
  if (which == 0) w_bt_lower_bound(t, k, (POS_T*)p); else if (which == 1) w_bt_upper_bound(t, k, (POS_T*)p);
  else if (which == 2) w_bt_find(t, k, (POS_T*)p); else if (which == 3) w_bt_begin(t, (POS_T*)p); else w_bt_end(t, (POS_T*)p);
}
void HARNESS(void)
{
  MK_TREE() INPUT(key_t_, in_k); INPUT(unsigned, in_which); struct Pos p;
  __CPROVER_assume(in_which <= 4);
#ifdef BOUND
  c_bound(&tr, in_k, &p, in_which);
#else
  c_lookup(&tr, in_k, &p);
#endif
  CANARY();
}

#elif defined(OP_iterate)
/* ++ / -- move exactly one position in leaf-chain order (forward from any element, backward from any element but the first and from end()) */
void c_step(BT* t, struct Pos* p, _Bool back, uint64_t idx)
__CPROVER_requires(bt_wf(t) && ST_SIZE(t) > 0 && idx == pos_index(t, p->leaf, p->slot) && idx != (uint64_t)-1 && p->slot <= N_USE((Leaf*)p->leaf))
__CPROVER_requires(back ? (idx >= 1 && idx <= ST_SIZE(t)) : idx < ST_SIZE(t))
__CPROVER_requires(p->slot < N_USE((Leaf*)p->leaf) || (p->leaf == (uint8_t*)TAILL(t) && p->slot == N_USE((Leaf*)p->leaf)))
__CPROVER_assigns(*p)
__CPROVER_ensures(pos_index(t, p->leaf, p->slot) == (back ? idx - 1 : idx + 1))
__CPROVER_ensures(p->slot < N_USE((Leaf*)p->leaf) || (p->leaf == (uint8_t*)TAILL(t) && p->slot == N_USE((Leaf*)p->leaf)))
{ if (back) w_bt_prev(t, (POS_T*)p); else w_bt_next(t, (POS_T*)p); }
void HARNESS(void)
{
  MK_TREE() INPUT(unsigned, in_li); INPUT(uint16_t, in_slot); INPUT(_Bool, in_back); struct Pos p;
  __CPROVER_assume(in_shape != 0 && in_li <= IS);
  Leaf* l = nth_leaf(&tr, in_li);
  __CPROVER_assume(l != 0 && (in_slot < N_USE(l) || (l == TAILL(&tr) && in_slot == N_USE(l))));
  p.leaf = (uint8_t*)l; p.slot = in_slot;
  uint64_t idx = pos_index(&tr, p.leaf, p.slot);
  __CPROVER_assume(in_back ? idx >= 1 : idx < ST_SIZE(&tr));
  c_step(&tr, &p, in_back, idx);
  CANARY();
}

#elif defined(OP_clear)
/* clear() / destructor: every node returned exactly once, tree empty and reusable */
void c_clear(BT* t, _Bool dtor, uint64_t nodes0, uint8_t* n0, uint8_t* n1, uint8_t* n2, uint8_t* n3, uint8_t* n4, uint8_t* n5)
__CPROVER_requires(bt_wf(t) && nodes0 == bt_nodes(t) && ir_live_allocs == nodes0)
BT_FRAME
__CPROVER_ensures(ir_live_allocs == 0)
__CPROVER_ensures(dtor || (bt_wf(t) && ROOT(t) == 0 && w_bt_size(t) == 0 && w_bt_empty(t)))
{ if (dtor) w_bt_dtor(t); else w_bt_clear(t); }
void HARNESS(void) { MK_TREE() INPUT(_Bool, in_dtor); c_clear(&tr, in_dtor, bt_nodes(&tr), NODE_VALS); CANARY(); }

#elif defined(OP_ctor)
void c_ctor(BT* t)
__CPROVER_assigns(*t)
__CPROVER_ensures(bt_wf(t) && ROOT(t) == 0 && w_bt_size(t) == 0)
{ w_bt_ctor(t); }
void HARNESS(void) { BT tr; ir_live_allocs = 0; ir_throw_allowed = 0; c_ctor(&tr); CANARY(); }
#else
#error "no OP_ selected"
#endif
