/* C13 (RadixHeap class) -- RadixHeap<K, identity, K, RADIX>::push / top / pop / peak_top_key / clear / size / empty from an
 * ARBITRARY well-formed heap (one job per operation), for a small key type so that the bucket array is small (props/C13.py:
 * int8_t keys with radix 2 = 9 buckets, uint8_t keys with radix 4 = 13 buckets).
 * State: the real object; every bucket vector gets CAP slots of harness storage and a symbolic size, at most TOT elements in
 * the whole heap (BOUNDED: TOT <= CAP, so no vector ever grows; libstdc++'s reallocation entry is replaced by a stub that
 * FAILS when reached).  Ghost `frontier` = rank of the last key returned by top()/pop() (initially / after clear(): 0): the
 * documented precondition of push is "key not smaller than the last top()/pop()" (radix_heap.hpp: "Updates insertion limit;
 * no smaller keys can be inserted later"), which is what the property's "monotone" means here.
 * rh_wf is the representation invariant; the leaf facts about BucketComputation (contracts/c13_radixheap.c) are what makes it
 * inductive, here the real bucket function is simply executed. */
#include "verif.h"
#include "gen.h"
typedef RH_T RH;
#define RMAX (((uint64_t)1 << KBITS) - 1)
#define H_SIZE(h)   ((h)->f1)
#define H_LIMIT(h)  ((uint64_t)(h)->f2)
#define H_CB(h)     ((h)->f3)
#define H_VB(h, b)  ((h)->f5.f0.a[b].f0.f0.f0.f0)
#define H_VE(h, b)  ((h)->f5.f0.a[b].f0.f0.f0.f1)
#define H_VC(h, b)  ((h)->f5.f0.a[b].f0.f0.f0.f2)
#define H_MIN(h, b) ((uint64_t)(h)->f6.f0.a[b])
#define H_FLAGS(h)  ((uint64_t)(h)->f7.f0.f0)
#ifndef CAP
#define CAP 3
#endif
uint8_t g_store[NB][CAP];                       /* storage of the bucket vectors */

void stub_no_realloc_insert(VEC_T* v, uint8_t* pos, uint8_t* val)
{ __CPROVER_assert(0, "no bucket vector reallocates within the capacity bound of this job"); __CPROVER_assume(0); }

static uint64_t bsize(const RH* h, unsigned b) { return (uint64_t)(H_VE(h, b) - H_VB(h, b)); }
static uint64_t rank_at(const RH* h, unsigned b, unsigned i) { return w_rh_rank((uint64_t)H_VB(h, b)[i]); }

/* representation invariant, relative to the ghost frontier */
static _Bool rh_wf(const RH* h, uint64_t frontier)
{
  uint64_t total = 0;
  if (H_CB(h) >= RADIX || H_LIMIT(h) > frontier || frontier > RMAX) return 0;
  if (w_rh_bucket(frontier, H_LIMIT(h)) != H_CB(h)) return 0;
  for (unsigned b = 0; b < NB; b++) {
    if (H_VB(h, b) != g_store[b] || H_VC(h, b) != g_store[b] + CAP) return 0;
    if (H_VE(h, b) < H_VB(h, b) || H_VE(h, b) > H_VC(h, b)) return 0;
    uint64_t n = bsize(h, b), mn = RMAX;
    total += n;
    if (((H_FLAGS(h) >> b) & 1) != (n > 0)) return 0;
    for (unsigned i = 0; i < CAP; i++) if (i < n) {
      uint64_t r = rank_at(h, b, i);
      if (r < frontier || w_rh_bucket(r, H_LIMIT(h)) != b) return 0;
      if (r < mn) mn = r;
    }
    if (n > 0 ? H_MIN(h, b) != mn : !(H_MIN(h, b) == RMAX || (b == H_CB(h) && H_MIN(h, b) == frontier))) return 0;
  }
  if ((H_FLAGS(h) >> NB) != 0) return 0;
  return total == H_SIZE(h) && total <= TOT;
}
/* view: multiplicity of rank g; smallest stored rank */
static uint64_t rh_count(const RH* h, uint64_t g)
{ uint64_t c = 0; for (unsigned b = 0; b < NB; b++) for (unsigned i = 0; i < CAP; i++) if (i < bsize(h, b) && rank_at(h, b, i) == g) c++; return c; }
static uint64_t rh_min(const RH* h)
{ uint64_t m = RMAX; for (unsigned b = 0; b < NB; b++) for (unsigned i = 0; i < CAP; i++) if (i < bsize(h, b) && rank_at(h, b, i) < m) m = rank_at(h, b, i); return m; }

/* arbitrary heap: every scalar field symbolic, symbolic bucket sizes and contents */
#define MK_RH()                                                                                          \
  INPUT(RH, in_h); INPUT_ARR(uint8_t, in_sz, NB); INPUT_ARR(uint8_t, in_el, NB * CAP); INPUT(uint64_t, in_frontier); \
  RH* h = &in_h;                                                                                         \
  for (unsigned b = 0; b < NB; b++) {                                                                    \
    __CPROVER_assume(in_sz[b] <= CAP);                                                                   \
    for (unsigned i = 0; i < CAP; i++) g_store[b][i] = in_el[b * CAP + i];                               \
    H_VB(h, b) = g_store[b]; H_VE(h, b) = g_store[b] + in_sz[b]; H_VC(h, b) = g_store[b] + CAP;          \
  }                                                                                                      \
  __CPROVER_assume(rh_wf(h, in_frontier));                                                               \
  ir_live_allocs = 0; ir_throw_allowed = 0;
#define RH_FRAME __CPROVER_assigns(*h, __CPROVER_object_whole(g_store))

#if defined(OP_push)
uint64_t c_push(RH* h, uint64_t key, uint64_t frontier, uint64_t g, uint64_t cg, uint64_t n0)
__CPROVER_requires(rh_wf(h, frontier) && w_rh_rank(key) >= frontier && cg == rh_count(h, g) && n0 == H_SIZE(h) && n0 < TOT)
RH_FRAME
__CPROVER_ensures(rh_wf(h, frontier) && H_SIZE(h) == n0 + 1 && w_rhh_size(h) == n0 + 1 && !w_rhh_empty(h))
__CPROVER_ensures(rh_count(h, g) == cg + (g == w_rh_rank(key)))
__CPROVER_ensures(__CPROVER_return_value == w_rh_bucket(w_rh_rank(key), H_LIMIT(h)))
{ return w_rhh_push(h, key); }
void HARNESS(void)
{ MK_RH() INPUT(uint64_t, in_key); INPUT(uint64_t, in_g); __CPROVER_assume(H_SIZE(h) < TOT && w_rh_rank(in_key) >= in_frontier);
  c_push(h, in_key, in_frontier, in_g, rh_count(h, in_g), H_SIZE(h)); CANARY(); }

#elif defined(OP_top)
/* top(): a stored key, not greater than any stored key; contents unchanged; it becomes the frontier.
 * peak_top_key(): the same key without touching the state */
uint64_t c_top(RH* h, uint64_t frontier, uint64_t g, uint64_t cg, uint64_t mn, uint64_t n0)
__CPROVER_requires(rh_wf(h, frontier) && H_SIZE(h) > 0 && cg == rh_count(h, g) && mn == rh_min(h) && n0 == H_SIZE(h))
RH_FRAME
__CPROVER_ensures(w_rh_rank(__CPROVER_return_value) == mn)
__CPROVER_ensures(rh_wf(h, mn) && H_SIZE(h) == n0 && rh_count(h, g) == cg)
{
#if WHICH == 0
  return w_rhh_top(h);
#else
  uint64_t k = w_rhh_peak_top_key(h);
  __CPROVER_assert(w_rh_rank(k) == mn, "peak_top_key() is the smallest stored key");
  __CPROVER_assert(rh_wf(h, frontier) && rh_count(h, g) == cg, "peak_top_key() leaves the heap as it was");
  return w_rhh_top(h);
#endif
}
void HARNESS(void)
{ MK_RH() INPUT(uint64_t, in_g); __CPROVER_assume(H_SIZE(h) > 0);
  c_top(h, in_frontier, in_g, rh_count(h, in_g), rh_min(h), H_SIZE(h)); CANARY(); }

#elif defined(OP_pop)
/* pop(): exactly one occurrence of the smallest key disappears; that key becomes the frontier */
void c_pop(RH* h, uint64_t frontier, uint64_t g, uint64_t cg, uint64_t mn, uint64_t n0)
__CPROVER_requires(rh_wf(h, frontier) && H_SIZE(h) > 0 && cg == rh_count(h, g) && mn == rh_min(h) && n0 == H_SIZE(h))
RH_FRAME
__CPROVER_ensures(rh_wf(h, mn) && H_SIZE(h) == n0 - 1 && w_rhh_size(h) == n0 - 1 && w_rhh_empty(h) == (n0 == 1))
__CPROVER_ensures(rh_count(h, g) == cg - (g == mn))
{ w_rhh_pop(h); }
void HARNESS(void)
{ MK_RH() INPUT(uint64_t, in_g); __CPROVER_assume(H_SIZE(h) > 0);
  c_pop(h, in_frontier, in_g, rh_count(h, in_g), rh_min(h), H_SIZE(h)); CANARY(); }

#elif defined(OP_clear)
/* clear(): empty, and indistinguishable from a new heap: frontier 0 again (any key may be pushed) */
void c_clear(RH* h, uint64_t frontier, uint64_t g)
__CPROVER_requires(rh_wf(h, frontier))
RH_FRAME
__CPROVER_ensures(rh_wf(h, 0) && H_SIZE(h) == 0 && w_rhh_empty(h) && rh_count(h, g) == 0 && H_LIMIT(h) == 0)
{ w_rhh_clear(h); }
void HARNESS(void) { MK_RH() INPUT(uint64_t, in_g); c_clear(h, in_frontier, in_g); CANARY(); }
#else
#error "no OP_ selected"
#endif
