/* C16 -- RingBuffer<Elem> is a bounded deque; element lifetimes are exact.
 *
 * Every public operation is enforced from an ARBITRARY well-formed buffer state (rb_wf): symbolic capacity in
 * {1,2,4,8,16} (= max_size 0..15, covering the property's 0..9), symbolic cursors (so both cursors wrap), symbolic
 * contents.  Because each operation is proved to re-establish rb_wf + the ledger invariant from any such state, the
 * result holds after every history (induction over the history; the induction step is what is machine-checked).
 *
 * abstract view:   size = (end - begin) & mask,  view(j) = data[(begin + j) & mask].v  for j < size
 * ghost ledger:    one symbolic slot `g_track` of the data array; g_alive = "an Elem object is alive in that slot".
 *                  invariant LI:  g_alive <=> slot index lies in the cyclic range [begin, end).
 *                  Elem's constructors / destructor call vf_ctor / vf_dtor (shims/ringbuffer.cpp), which flip g_alive
 *                  and fail when constructing into a live slot or destroying a dead one; g_nctor / g_ndtor count all
 *                  constructions / destructions anywhere.
 * Since g_track is symbolic, LI is proved for every slot.  The ghost index `j` plays the same role for the view. */
#include "verif.h"
#include "gen.h"
typedef struct S_class_tlx__RingBuffer RB;
typedef struct S_struct_Elem Elem;
#define R_max f0
#define R_cap f2
#define R_mask f3
#define R_data f4
#define R_begin f5
#define R_end f6
#define E_v f0
#define CAPMAX 16

/* ---- ghost ledger ---- */
Elem* g_track; _Bool g_alive; uint64_t g_nctor, g_ndtor, g_nassign;
void vf_ctor(uint8_t* slot, uint32_t val)
{ g_nctor++; if ((Elem*)slot == g_track) { __CPROVER_assert(!g_alive, "an element is constructed only into a dead slot"); g_alive = 1; } }
void vf_dtor(uint8_t* slot)
{ g_ndtor++; if ((Elem*)slot == g_track) { __CPROVER_assert(g_alive, "only a live element is destroyed"); g_alive = 0; } }
void vf_assign(uint8_t* slot, uint32_t val)
{ g_nassign++; if ((Elem*)slot == g_track) { __CPROVER_assert(g_alive, "only a live element is assigned to"); } }

/* ---- representation invariant and view ---- */
static uint64_t rb_size(const RB* rb) { return (rb->R_end - rb->R_begin) & rb->R_mask; }
static _Bool rb_allocated(const RB* rb)
{
  uint64_t c = rb->R_cap;
  return (c == 1 || c == 2 || c == 4 || c == 8 || c == 16) && rb->R_mask == c - 1 && rb->R_begin <= rb->R_mask &&
         rb->R_end <= rb->R_mask && rb->R_max < c && rb->R_max >= c / 2 && rb_size(rb) <= rb->R_max && rb->R_data != 0;
}
static _Bool rb_unallocated(const RB* rb) { return rb->R_cap == 0 && rb->R_data == 0 && rb->R_begin == 0 && rb->R_end == 0; }
static _Bool slot_in_range(const RB* rb, uint64_t s) { return ((s - rb->R_begin) & rb->R_mask) < rb_size(rb); }
static uint32_t view(const RB* rb, uint64_t j) { return rb->R_data[(rb->R_begin + j) & rb->R_mask].E_v; }
/* ledger invariant for the tracked slot index gs of rb's array */
static _Bool ledger_ok(const RB* rb, uint64_t gs) { return g_track == rb->R_data + gs && g_alive == slot_in_range(rb, gs); }

/* ---- harness state: an arbitrary well-formed allocated buffer in exactly-sized storage ---- */
#define MK_RB(rbname)                                                                                        \
  INPUT(RB, in_##rbname); INPUT_ARR(Elem, in_##rbname##_data, CAPMAX);                                       \
  __CPROVER_assume(in_##rbname.R_cap == 1 || in_##rbname.R_cap == 2 || in_##rbname.R_cap == 4 || in_##rbname.R_cap == 8 || in_##rbname.R_cap == 16); \
  Elem* rbname##_data = malloc(in_##rbname.R_cap * sizeof(Elem));                                            \
  __CPROVER_assume(rbname##_data != 0);                                                                      \
  for (unsigned i_ = 0; i_ < CAPMAX; i_++) if (i_ < in_##rbname.R_cap) rbname##_data[i_] = in_##rbname##_data[i_]; \
  in_##rbname.R_data = rbname##_data;                                                                        \
  __CPROVER_assume(rb_allocated(&in_##rbname));
#define MK_LEDGER(rbname)                                                                                    \
  INPUT(uint64_t, in_gs); __CPROVER_assume(in_gs < in_##rbname.R_cap);                                       \
  g_track = in_##rbname.R_data + in_gs; g_alive = slot_in_range(&in_##rbname, in_gs);                        \
  g_nctor = 0; g_ndtor = 0; g_nassign = 0; ir_live_allocs = 1;

/* =============================================================================================== push / emplace */
#if defined(OP_push_back) || defined(OP_push_front)
/* VARIANT: 0 = push(const T&), 1 = push(T&&), 2 = emplace(int) */
#if defined(OP_push_back)
#define IS_BACK 1
#else
#define IS_BACK 0
#endif
void c_push(RB* rb, Elem* x, uint32_t xv, uint64_t gs, uint64_t j, uint32_t vj, uint64_t osz)
__CPROVER_requires(osz == rb_size(rb) && rb_allocated(rb) && rb_size(rb) + 1 <= rb->R_max && ledger_ok(rb, gs) && gs < rb->R_cap)
__CPROVER_requires(x->E_v == xv && j < rb_size(rb) && vj == view(rb, j))
__CPROVER_assigns(rb->R_begin, rb->R_end, __CPROVER_object_whole(rb->R_data), g_alive, g_nctor, g_ndtor, g_nassign)
__CPROVER_ensures(rb_allocated(rb) && ledger_ok(rb, gs))
__CPROVER_ensures(rb_size(rb) == osz + 1)
/* deque equation: the new element is at the pushed end, every old element keeps its value and (shifted) position */
__CPROVER_ensures(IS_BACK ? (view(rb, rb_size(rb) - 1) == xv && view(rb, j) == vj && rb->R_begin == __CPROVER_old(rb->R_begin))
                          : (view(rb, 0) == xv && view(rb, j + 1) == vj && rb->R_end == __CPROVER_old(rb->R_end)))
/* exactly one construction, no destruction, no assignment */
__CPROVER_ensures(g_nctor == __CPROVER_old(g_nctor) + 1 && g_ndtor == __CPROVER_old(g_ndtor) && g_nassign == __CPROVER_old(g_nassign))
/* capacity, max_size, storage unchanged */
__CPROVER_ensures(rb->R_cap == __CPROVER_old(rb->R_cap) && rb->R_max == __CPROVER_old(rb->R_max) && rb->R_data == __CPROVER_old(rb->R_data))
{
#if IS_BACK
#if VARIANT == 0
  w_rb_push_back_copy(rb, x);
#elif VARIANT == 1
  w_rb_push_back_move(rb, x);
#else
  w_rb_emplace_back(rb, xv);
#endif
#else
#if VARIANT == 0
  w_rb_push_front_copy(rb, x);
#elif VARIANT == 1
  w_rb_push_front_move(rb, x);
#else
  w_rb_emplace_front(rb, xv);
#endif
#endif
}
void HARNESS(void)
{
  MK_RB(rb) MK_LEDGER(rb)
  INPUT(Elem, in_x); INPUT(uint64_t, in_j);
  __CPROVER_assume(rb_size(&in_rb) + 1 <= in_rb.R_max);
  __CPROVER_assume(in_j < rb_size(&in_rb));
  c_push(&in_rb, &in_x, in_x.E_v, in_gs, in_j, view(&in_rb, in_j), rb_size(&in_rb));
  CANARY();
}

/* =============================================================================================== push onto an empty buffer */
#elif defined(OP_push_empty)
void c_push_empty(RB* rb, uint32_t xv, uint64_t gs, _Bool back)
__CPROVER_requires(rb_allocated(rb) && rb_size(rb) == 0 && rb->R_max >= 1 && ledger_ok(rb, gs) && gs < rb->R_cap)
__CPROVER_assigns(rb->R_begin, rb->R_end, __CPROVER_object_whole(rb->R_data), g_alive, g_nctor, g_ndtor, g_nassign)
__CPROVER_ensures(rb_allocated(rb) && ledger_ok(rb, gs) && rb_size(rb) == 1 && view(rb, 0) == xv)
__CPROVER_ensures(g_nctor == __CPROVER_old(g_nctor) + 1 && g_ndtor == __CPROVER_old(g_ndtor))
{ if (back) w_rb_emplace_back(rb, xv); else w_rb_emplace_front(rb, xv); }
void HARNESS(void)
{
  MK_RB(rb) MK_LEDGER(rb)
  INPUT(uint32_t, in_xv); INPUT(_Bool, in_back);
  __CPROVER_assume(rb_size(&in_rb) == 0 && in_rb.R_max >= 1);
  c_push_empty(&in_rb, in_xv, in_gs, in_back);
  CANARY();
}

/* =============================================================================================== pop */
#elif defined(OP_pop_back) || defined(OP_pop_front)
#if defined(OP_pop_back)
#define IS_BACK 1
#else
#define IS_BACK 0
#endif
void c_pop(RB* rb, uint64_t gs, uint64_t j, uint32_t vj, uint64_t osz)
__CPROVER_requires(osz == rb_size(rb) && rb_allocated(rb) && rb_size(rb) >= 1 && ledger_ok(rb, gs) && gs < rb->R_cap)
/* j indexes an element that survives the pop, in post-state numbering */
__CPROVER_requires(j + 1 < rb_size(rb) && vj == view(rb, IS_BACK ? j : j + 1))
__CPROVER_assigns(rb->R_begin, rb->R_end, __CPROVER_object_whole(rb->R_data), g_alive, g_nctor, g_ndtor, g_nassign)
__CPROVER_ensures(rb_allocated(rb) && ledger_ok(rb, gs))
__CPROVER_ensures(rb_size(rb) == osz - 1)
__CPROVER_ensures(view(rb, j) == vj)
__CPROVER_ensures(IS_BACK ? rb->R_begin == __CPROVER_old(rb->R_begin) : rb->R_end == __CPROVER_old(rb->R_end))
__CPROVER_ensures(g_nctor == __CPROVER_old(g_nctor) && g_ndtor == __CPROVER_old(g_ndtor) + 1 && g_nassign == __CPROVER_old(g_nassign))
__CPROVER_ensures(rb->R_cap == __CPROVER_old(rb->R_cap) && rb->R_max == __CPROVER_old(rb->R_max) && rb->R_data == __CPROVER_old(rb->R_data))
{
#if IS_BACK
  w_rb_pop_back(rb);
#else
  w_rb_pop_front(rb);
#endif
}
void HARNESS(void)
{
  MK_RB(rb) MK_LEDGER(rb)
  INPUT(uint64_t, in_j);
  __CPROVER_assume(rb_size(&in_rb) >= 1);
  __CPROVER_assume(in_j + 1 < rb_size(&in_rb));
  c_pop(&in_rb, in_gs, in_j, view(&in_rb, IS_BACK ? in_j : in_j + 1), rb_size(&in_rb));
  CANARY();
}

#elif defined(OP_pop_last)
/* popping the only element from either end leaves an empty, well-formed buffer */
void c_pop_last(RB* rb, uint64_t gs, _Bool back)
__CPROVER_requires(rb_allocated(rb) && rb_size(rb) == 1 && ledger_ok(rb, gs) && gs < rb->R_cap)
__CPROVER_assigns(rb->R_begin, rb->R_end, __CPROVER_object_whole(rb->R_data), g_alive, g_nctor, g_ndtor, g_nassign)
__CPROVER_ensures(rb_allocated(rb) && ledger_ok(rb, gs) && rb_size(rb) == 0 && w_rb_empty(rb))
__CPROVER_ensures(g_nctor == __CPROVER_old(g_nctor) && g_ndtor == __CPROVER_old(g_ndtor) + 1)
{ if (back) w_rb_pop_back(rb); else w_rb_pop_front(rb); }
void HARNESS(void)
{
  MK_RB(rb) MK_LEDGER(rb)
  INPUT(_Bool, in_back);
  __CPROVER_assume(rb_size(&in_rb) == 1);
  c_pop_last(&in_rb, in_gs, in_back);
  CANARY();
}

/* =============================================================================================== clear */
#elif defined(OP_clear)
void c_clear(RB* rb, uint64_t gs, uint64_t osz)
__CPROVER_requires(osz == rb_size(rb) && rb_allocated(rb) && ledger_ok(rb, gs) && gs < rb->R_cap)
__CPROVER_assigns(rb->R_begin, rb->R_end, __CPROVER_object_whole(rb->R_data), g_alive, g_nctor, g_ndtor, g_nassign)
__CPROVER_ensures(rb_allocated(rb) && ledger_ok(rb, gs) && rb_size(rb) == 0 && !g_alive)
__CPROVER_ensures(g_nctor == __CPROVER_old(g_nctor) && g_ndtor == __CPROVER_old(g_ndtor) + osz)
__CPROVER_ensures(rb->R_cap == __CPROVER_old(rb->R_cap) && rb->R_max == __CPROVER_old(rb->R_max) && rb->R_data == __CPROVER_old(rb->R_data))
{ w_rb_clear(rb); }
void HARNESS(void) { MK_RB(rb) MK_LEDGER(rb) c_clear(&in_rb, in_gs, rb_size(&in_rb)); CANARY(); }

/* =============================================================================================== observers */
#elif defined(OP_observe)
/* operator[], front, back, size, empty, max_size, capacity report the view and change nothing */
void c_observe(RB* rb, uint64_t j)
__CPROVER_requires(rb_allocated(rb) && j < rb_size(rb))
__CPROVER_assigns()
__CPROVER_ensures(w_rb_at(rb, j) == &rb->R_data[(rb->R_begin + j) & rb->R_mask])
__CPROVER_ensures(w_rb_front(rb) == w_rb_at(rb, 0) && w_rb_back(rb) == w_rb_at(rb, rb_size(rb) - 1))
__CPROVER_ensures(w_rb_size(rb) == rb_size(rb) && !w_rb_empty(rb) && w_rb_max_size(rb) == rb->R_max && w_rb_capacity(rb) == rb->R_cap)
{ w_rb_at(rb, j); w_rb_front(rb); w_rb_back(rb); w_rb_size(rb); w_rb_empty(rb); }
void HARNESS(void)
{
  MK_RB(rb) INPUT(uint64_t, in_j);
  __CPROVER_assume(in_j < rb_size(&in_rb));
  c_observe(&in_rb, in_j);
  CANARY();
}
#elif defined(OP_observe_empty)
void c_observe_empty(RB* rb)
__CPROVER_requires((rb_allocated(rb) || rb_unallocated(rb)) && rb_size(rb) == 0)
__CPROVER_assigns()
__CPROVER_ensures(w_rb_size(rb) == 0 && w_rb_empty(rb))
{ w_rb_size(rb); w_rb_empty(rb); }
void HARNESS(void)
{
  INPUT(RB, in_rb); INPUT(_Bool, in_alloc);
  Elem* d = malloc(CAPMAX * sizeof(Elem)); __CPROVER_assume(d != 0);
  in_rb.R_data = in_alloc ? d : 0;
  __CPROVER_assume((rb_allocated(&in_rb) || rb_unallocated(&in_rb)) && rb_size(&in_rb) == 0);
  c_observe_empty(&in_rb);
  CANARY();
}

/* =============================================================================================== construction / allocation */
#elif defined(OP_ctor)
/* RingBuffer(max_size) / default ctor + allocate(max_size): empty buffer that can take max_size elements */
void c_ctor(RB* rb, uint64_t max_size, _Bool two_step)
__CPROVER_requires(max_size <= 15)
__CPROVER_assigns(*rb, g_nctor, g_ndtor, g_nassign, ir_live_allocs)
__CPROVER_ensures(rb_allocated(rb) && rb_size(rb) == 0 && rb->R_max == max_size && w_rb_empty(rb))
__CPROVER_ensures(g_nctor == __CPROVER_old(g_nctor) && g_ndtor == __CPROVER_old(g_ndtor))
__CPROVER_ensures(ir_live_allocs == __CPROVER_old(ir_live_allocs) + 1)
{ if (two_step) { w_rb_ctor_default(rb); w_rb_allocate(rb, max_size); } else w_rb_ctor(rb, max_size); }
void HARNESS(void)
{
  RB rb; INPUT(uint64_t, in_max); INPUT(_Bool, in_two);
  __CPROVER_assume(in_max <= 15);
  g_nctor = 0; g_ndtor = 0; g_nassign = 0; ir_live_allocs = 0; g_track = 0; g_alive = 0;
  c_ctor(&rb, in_max, in_two);
  /* the storage really has `capacity` elements: touching the last slot is in bounds */
  rb.R_data[rb.R_cap - 1].E_v = 0;
  CANARY();
}
#elif defined(OP_ctor_default)
void c_ctor_default(RB* rb)
__CPROVER_assigns(*rb)
__CPROVER_ensures(rb_unallocated(rb) && rb->R_max == 0 && w_rb_size(rb) == 0 && w_rb_empty(rb))
{ w_rb_ctor_default(rb); }
void HARNESS(void) { RB rb; c_ctor_default(&rb); CANARY(); }

#elif defined(OP_dtor)
/* destructor / deallocate(): every stored element destroyed exactly once, storage returned exactly once */
void c_dtor(RB* rb, uint64_t gs, _Bool dealloc_only, uint64_t osz)
__CPROVER_requires(osz == rb_size(rb) && rb_allocated(rb) && ledger_ok(rb, gs) && gs < rb->R_cap)
__CPROVER_assigns(*rb, __CPROVER_object_whole(rb->R_data), g_alive, g_nctor, g_ndtor, g_nassign, ir_live_allocs)
__CPROVER_frees(rb->R_data)
__CPROVER_ensures(!g_alive && g_nctor == __CPROVER_old(g_nctor) && g_ndtor == __CPROVER_old(g_ndtor) + osz)
__CPROVER_ensures(ir_live_allocs == __CPROVER_old(ir_live_allocs) - 1)
__CPROVER_ensures(!dealloc_only || (rb->R_data == 0 && w_rb_size(rb) == 0))
{ if (dealloc_only) w_rb_deallocate(rb); else w_rb_dtor(rb); }
void HARNESS(void) { MK_RB(rb) MK_LEDGER(rb) INPUT(_Bool, in_dealloc); c_dtor(&in_rb, in_gs, in_dealloc, rb_size(&in_rb)); CANARY(); }

#elif defined(OP_dtor_unallocated)
void c_dtor_un(RB* rb, _Bool dealloc_only)
__CPROVER_requires(rb_unallocated(rb))
__CPROVER_assigns(*rb, g_alive, g_nctor, g_ndtor, g_nassign, ir_live_allocs)
__CPROVER_ensures(g_nctor == __CPROVER_old(g_nctor) && g_ndtor == __CPROVER_old(g_ndtor) && ir_live_allocs == __CPROVER_old(ir_live_allocs))
{ if (dealloc_only) w_rb_deallocate(rb); else w_rb_dtor(rb); }
void HARNESS(void)
{
  INPUT(RB, in_rb); INPUT(_Bool, in_dealloc);
  in_rb.R_data = 0; __CPROVER_assume(rb_unallocated(&in_rb));
  g_nctor = 0; g_ndtor = 0; g_nassign = 0; ir_live_allocs = 0; g_track = 0; g_alive = 0;
  c_dtor_un(&in_rb, in_dealloc); CANARY();
}

/* =============================================================================================== copy / move */
#elif defined(OP_copy_ctor)
/* copy constructor: same max_size, same element sequence, source untouched, one construction per element */
void c_copy_ctor(RB* dst, RB* src, uint64_t gs, uint64_t j)
__CPROVER_requires(rb_allocated(src) && ledger_ok(src, gs) && gs < src->R_cap && (j < rb_size(src) || rb_size(src) == 0))
__CPROVER_assigns(*dst, g_alive, g_nctor, g_ndtor, g_nassign, ir_live_allocs)
__CPROVER_ensures(rb_allocated(dst) && rb_allocated(src) && ledger_ok(src, gs))
__CPROVER_ensures(rb_size(dst) == rb_size(src) && dst->R_max == src->R_max && dst->R_data != src->R_data)
__CPROVER_ensures(rb_size(src) == 0 || view(dst, j) == view(src, j))
__CPROVER_ensures(g_nctor == __CPROVER_old(g_nctor) + rb_size(src) && g_ndtor == __CPROVER_old(g_ndtor))
__CPROVER_ensures(ir_live_allocs == __CPROVER_old(ir_live_allocs) + 1)
{ w_rb_copy_ctor(dst, src); }
void HARNESS(void)
{
  MK_RB(rb) MK_LEDGER(rb) RB dst; INPUT(uint64_t, in_j);
  __CPROVER_assume(in_j < rb_size(&in_rb) || rb_size(&in_rb) == 0);
  RB before = in_rb;
  c_copy_ctor(&dst, &in_rb, in_gs, in_j);
  __CPROVER_assert(before.R_begin == in_rb.R_begin && before.R_end == in_rb.R_end && before.R_data == in_rb.R_data, "copy constructor leaves the source untouched");
  CANARY();
}

#elif defined(OP_move_ctor)
/* move constructor: the new buffer takes over the storage and the sequence; no element is constructed or destroyed;
 * the source is left without storage (property is silent about its other fields) */
void c_move_ctor(RB* dst, RB* src, uint64_t gs)
__CPROVER_requires(rb_allocated(src) && ledger_ok(src, gs) && gs < src->R_cap)
__CPROVER_assigns(*dst, *src, g_alive, g_nctor, g_ndtor, g_nassign)
__CPROVER_ensures(rb_allocated(dst) && ledger_ok(dst, gs))
__CPROVER_ensures(dst->R_data == __CPROVER_old(src->R_data) && dst->R_begin == __CPROVER_old(src->R_begin) && dst->R_end == __CPROVER_old(src->R_end) &&
                  dst->R_max == __CPROVER_old(src->R_max) && dst->R_cap == __CPROVER_old(src->R_cap))
__CPROVER_ensures(src->R_data == 0 && w_rb_size(src) == 0)
__CPROVER_ensures(g_nctor == __CPROVER_old(g_nctor) && g_ndtor == __CPROVER_old(g_ndtor))
{ w_rb_move_ctor(dst, src); }
void HARNESS(void) { MK_RB(rb) MK_LEDGER(rb) RB dst; c_move_ctor(&dst, &in_rb, in_gs); CANARY(); }

#elif defined(OP_copy_assign)
/* a = b (a != b): a's old elements destroyed, a holds b's sequence and max_size, b untouched.
 * The tracked slot is in a's OLD array when TRACK_A, else in b's array. */
void c_copy_assign(RB* a, RB* b, uint64_t gs, uint64_t j, uint64_t old_size_a)
__CPROVER_requires(rb_allocated(a) && rb_allocated(b) && a != b && a->R_data != b->R_data && gs < (TRACK_A ? a->R_cap : b->R_cap))
__CPROVER_requires(ledger_ok(TRACK_A ? a : b, gs) && (j < rb_size(b) || rb_size(b) == 0) && old_size_a == rb_size(a))
__CPROVER_assigns(*a, __CPROVER_object_whole(a->R_data), g_alive, g_nctor, g_ndtor, g_nassign, ir_live_allocs)
__CPROVER_frees(a->R_data)
__CPROVER_ensures(rb_allocated(a) && rb_allocated(b))
__CPROVER_ensures(rb_size(a) == rb_size(b) && a->R_max == b->R_max)
__CPROVER_ensures(rb_size(b) == 0 || view(a, j) == view(b, j))
__CPROVER_ensures(g_nctor == __CPROVER_old(g_nctor) + rb_size(b) && g_ndtor == __CPROVER_old(g_ndtor) + old_size_a)
__CPROVER_ensures(ir_live_allocs == __CPROVER_old(ir_live_allocs))
/* b's slot keeps its state; a's old slot: dead if the storage was replaced, else alive iff in a's new range */
__CPROVER_ensures(TRACK_A ? (a->R_data != __CPROVER_old(a->R_data) ? !g_alive : g_alive == slot_in_range(a, gs)) : ledger_ok(b, gs))
{ w_rb_copy_assign(a, b); }
void HARNESS(void)
{
  MK_RB(a) MK_RB(b)
  INPUT(uint64_t, in_gs); INPUT(uint64_t, in_j);
  __CPROVER_assume(in_gs < (TRACK_A ? in_a.R_cap : in_b.R_cap));
  g_track = (TRACK_A ? in_a.R_data : in_b.R_data) + in_gs; g_alive = slot_in_range(TRACK_A ? &in_a : &in_b, in_gs);
  g_nctor = 0; g_ndtor = 0; g_nassign = 0; ir_live_allocs = 2;
  __CPROVER_assume(in_j < rb_size(&in_b) || rb_size(&in_b) == 0);
  c_copy_assign(&in_a, &in_b, in_gs, in_j, rb_size(&in_a));
  CANARY();
}

#elif defined(OP_self_assign)
/* a = a and a = std::move(a) change nothing */
void c_self_assign(RB* a, uint64_t gs, _Bool mv)
__CPROVER_requires(rb_allocated(a) && ledger_ok(a, gs) && gs < a->R_cap)
__CPROVER_assigns(*a, __CPROVER_object_whole(a->R_data), g_alive, g_nctor, g_ndtor, g_nassign, ir_live_allocs)
__CPROVER_ensures(rb_allocated(a) && ledger_ok(a, gs))
__CPROVER_ensures(a->R_begin == __CPROVER_old(a->R_begin) && a->R_end == __CPROVER_old(a->R_end) && a->R_data == __CPROVER_old(a->R_data) && a->R_max == __CPROVER_old(a->R_max))
__CPROVER_ensures(g_nctor == __CPROVER_old(g_nctor) && g_ndtor == __CPROVER_old(g_ndtor) && ir_live_allocs == __CPROVER_old(ir_live_allocs))
{ if (mv) w_rb_move_assign(a, a); else w_rb_copy_assign(a, a); }
void HARNESS(void) { MK_RB(rb) MK_LEDGER(rb) INPUT(_Bool, in_mv); c_self_assign(&in_rb, in_gs, in_mv); CANARY(); }

#elif defined(OP_move_assign)
/* a = std::move(b) (a != b): a's old elements destroyed and its storage returned; a takes over b's storage/sequence */
void c_move_assign(RB* a, RB* b, uint64_t gs, uint64_t old_size_a)
__CPROVER_requires(rb_allocated(a) && rb_allocated(b) && a != b && a->R_data != b->R_data && gs < (TRACK_A ? a->R_cap : b->R_cap))
__CPROVER_requires(ledger_ok(TRACK_A ? a : b, gs) && old_size_a == rb_size(a))
__CPROVER_assigns(*a, *b, __CPROVER_object_whole(a->R_data), g_alive, g_nctor, g_ndtor, g_nassign, ir_live_allocs)
__CPROVER_frees(a->R_data)
__CPROVER_ensures(rb_allocated(a))
__CPROVER_ensures(a->R_data == __CPROVER_old(b->R_data) && a->R_begin == __CPROVER_old(b->R_begin) && a->R_end == __CPROVER_old(b->R_end) &&
                  a->R_max == __CPROVER_old(b->R_max) && a->R_cap == __CPROVER_old(b->R_cap))
__CPROVER_ensures(b->R_data == 0 && w_rb_size(b) == 0)
__CPROVER_ensures(g_nctor == __CPROVER_old(g_nctor) && g_ndtor == __CPROVER_old(g_ndtor) + old_size_a)
__CPROVER_ensures(ir_live_allocs == __CPROVER_old(ir_live_allocs) - 1)
__CPROVER_ensures(TRACK_A ? !g_alive : ledger_ok(a, gs))
{ w_rb_move_assign(a, b); }
void HARNESS(void)
{
  MK_RB(a) MK_RB(b)
  INPUT(uint64_t, in_gs);
  __CPROVER_assume(in_gs < (TRACK_A ? in_a.R_cap : in_b.R_cap));
  g_track = (TRACK_A ? in_a.R_data : in_b.R_data) + in_gs; g_alive = slot_in_range(TRACK_A ? &in_a : &in_b, in_gs);
  g_nctor = 0; g_ndtor = 0; g_nassign = 0; ir_live_allocs = 2;
  c_move_assign(&in_a, &in_b, in_gs, rb_size(&in_a));
  CANARY();
}
#else
#error "no OP_ selected"
#endif
