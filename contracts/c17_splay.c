/* C17 (SplayTree part) -- SplayTree<uint8_t, std::less, DUP> is a correct ordered set (DUP=0) / multiset (DUP=1).
 * Every operation is enforced from an ARBITRARY valid search tree of at most NN nodes: arbitrary shape (parent-array
 * encoding: node 0 is the root, node j > 0 hangs below an earlier node on a symbolic side), symbolic keys, including the
 * empty tree.  Ghost key g states membership / multiplicity; st_wf states "valid search tree with exactly size_ nodes";
 * the allocation ledger states "every node freed exactly once".  BOUNDED: at most NN nodes before the operation. */
#include "verif.h"
#include "gen.h"
typedef NODE_T Node; typedef struct S_class_tlx__SplayTree ST;
#define N_L(n) ((n)->f0)
#define N_R(n) ((n)->f1)
#define N_K(n) ((n)->f2)
#define T_ROOT(t) ((t)->f0)
#define T_SIZE(t) ((t)->f1)
#ifndef NN
#define NN 4
#endif
#define DEPTH (NN + 2)

/* search-tree check with key bounds [lo, hi]; duplicates (DUP) may sit on either side */
static _Bool bst_ok(const Node* n, int lo, int hi, unsigned depth)
{
  if (n == 0) return 1;
  if (depth == 0) return 0;
  int k = N_K(n);
  if (k < lo || k > hi) return 0;
  return bst_ok(N_L(n), lo, DUP ? k : k - 1, depth - 1) && bst_ok(N_R(n), DUP ? k : k + 1, hi, depth - 1);
}
static unsigned cnt_nodes(const Node* n, unsigned depth)
{ if (n == 0 || depth == 0) return 0; return 1 + cnt_nodes(N_L(n), depth - 1) + cnt_nodes(N_R(n), depth - 1); }
static unsigned cnt_key(const Node* n, uint8_t g, unsigned depth)
{ if (n == 0 || depth == 0) return 0; return (N_K(n) == g) + cnt_key(N_L(n), g, depth - 1) + cnt_key(N_R(n), g, depth - 1); }
static _Bool st_wf(const ST* t) { return bst_ok(T_ROOT(t), 0, 255, DEPTH) && cnt_nodes(T_ROOT(t), DEPTH) == T_SIZE(t) && T_SIZE(t) <= NN + 1; }

/* arbitrary tree of in_n <= NN nodes */
#define MK_ST()                                                                                      \
  ST tr; INPUT(unsigned, in_n); INPUT_ARR(uint8_t, in_key, NN); INPUT_ARR(uint8_t, in_par, NN); INPUT_ARR(_Bool, in_side, NN); \
  FIX_NN_ __CPROVER_assume(in_n <= NN);                                                              \
  Node* nd[NN];                                                                                      \
  for (unsigned i_ = 0; i_ < NN; i_++) { nd[i_] = malloc(sizeof(Node)); __CPROVER_assume(nd[i_] != 0); N_L(nd[i_]) = 0; N_R(nd[i_]) = 0; N_K(nd[i_]) = in_key[i_]; } \
  for (unsigned j_ = 1; j_ < NN; j_++) if (j_ < in_n) {                                              \
    __CPROVER_assume(in_par[j_] < j_);                                                               \
    Node* p_ = nd[in_par[j_]];                                                                       \
    if (in_side[j_]) { __CPROVER_assume(N_R(p_) == 0); N_R(p_) = nd[j_]; } else { __CPROVER_assume(N_L(p_) == 0); N_L(p_) = nd[j_]; } \
  }                                                                                                  \
  T_ROOT(&tr) = in_n ? nd[0] : 0; T_SIZE(&tr) = in_n;                                                \
  __CPROVER_assume(st_wf(&tr));                                                                      \
  ir_live_allocs = in_n; ir_throw_allowed = 0;
#ifdef FIX_NN
#define FIX_NN_ in_n = FIX_NN;
#else
#define FIX_NN_
#endif
#define ST_FRAME __CPROVER_assigns(*t, ir_live_allocs)

#if defined(OP_insert)
_Bool c_insert(ST* t, uint8_t k, uint8_t g, unsigned cg, unsigned ck, uint64_t n0)
__CPROVER_requires(st_wf(t) && cg == cnt_key(T_ROOT(t), g, DEPTH) && ck == cnt_key(T_ROOT(t), k, DEPTH) && n0 == T_SIZE(t) && n0 <= NN && ir_live_allocs == n0)
ST_FRAME
__CPROVER_ensures(st_wf(t))
__CPROVER_ensures(__CPROVER_return_value == (DUP || ck == 0))
__CPROVER_ensures(cnt_key(T_ROOT(t), g, DEPTH) == cg + ((g == k) && (DUP || ck == 0)))
__CPROVER_ensures(T_SIZE(t) == n0 + (DUP || ck == 0) && ir_live_allocs == T_SIZE(t))
{ return w_st_insert(t, k); }
void HARNESS(void)
{
  MK_ST() INPUT(uint8_t, in_k); INPUT(uint8_t, in_g);
  c_insert(&tr, in_k, in_g, cnt_key(T_ROOT(&tr), in_g, DEPTH), cnt_key(T_ROOT(&tr), in_k, DEPTH), in_n);
  CANARY();
}

#elif defined(OP_erase)
/* erase(k) removes one occurrence if present */
_Bool c_erase(ST* t, uint8_t k, uint8_t g, unsigned cg, unsigned ck, uint64_t n0)
__CPROVER_requires(st_wf(t) && cg == cnt_key(T_ROOT(t), g, DEPTH) && ck == cnt_key(T_ROOT(t), k, DEPTH) && n0 == T_SIZE(t) && ir_live_allocs == n0)
ST_FRAME
__CPROVER_ensures(st_wf(t))
__CPROVER_ensures(__CPROVER_return_value == (ck > 0))
__CPROVER_ensures(cnt_key(T_ROOT(t), g, DEPTH) == cg - ((g == k) && ck > 0))
__CPROVER_ensures(T_SIZE(t) == n0 - (ck > 0) && ir_live_allocs == T_SIZE(t))
{ return w_st_erase(t, k); }
void HARNESS(void)
{
  MK_ST() INPUT(uint8_t, in_k); INPUT(uint8_t, in_g);
  c_erase(&tr, in_k, in_g, cnt_key(T_ROOT(&tr), in_g, DEPTH), cnt_key(T_ROOT(&tr), in_k, DEPTH), in_n);
  CANARY();
}

#elif defined(OP_query)
/* exists / find / size / empty: answers equal the multiset; the tree stays a valid search tree with the same contents */
void c_query(ST* t, uint8_t k, uint8_t g, unsigned cg, unsigned ck, uint64_t n0)
__CPROVER_requires(st_wf(t) && cg == cnt_key(T_ROOT(t), g, DEPTH) && ck == cnt_key(T_ROOT(t), k, DEPTH) && n0 == T_SIZE(t))
ST_FRAME
__CPROVER_ensures(st_wf(t) && cnt_key(T_ROOT(t), g, DEPTH) == cg && T_SIZE(t) == n0)
__CPROVER_ensures(w_st_size(t) == n0 && w_st_empty(t) == (n0 == 0))
{
#if WHICH == 0
  _Bool r = w_st_exists(t, k);
  __CPROVER_assert(r == (ck > 0), "exists(k) == k is stored");
#else
  Node* r = w_st_find(t, k);
  __CPROVER_assert(n0 == 0 ? r == 0 : (r != 0 && r == T_ROOT(t) && (ck == 0 || N_K(r) == k)), "find(k) returns the root, which holds k when k is stored");
#endif
}
void HARNESS(void)
{
  MK_ST() INPUT(uint8_t, in_k); INPUT(uint8_t, in_g);
  c_query(&tr, in_k, in_g, cnt_key(T_ROOT(&tr), in_g, DEPTH), cnt_key(T_ROOT(&tr), in_k, DEPTH), in_n);
  CANARY();
}

#elif defined(OP_clear)
/* clear(): every node freed exactly once, the tree is empty AND usable afterwards (an insert works) */
void c_clear(ST* t, uint64_t n0, uint8_t k)
__CPROVER_requires(st_wf(t) && n0 == T_SIZE(t) && ir_live_allocs == n0)
ST_FRAME
__CPROVER_ensures(ir_live_allocs == T_SIZE(t))
__CPROVER_ensures(st_wf(t))
{
  w_st_clear(t);
  __CPROVER_assert(ir_live_allocs == 0 && w_st_size(t) == 0 && w_st_empty(t), "after clear(): no node left, size 0");
#ifdef REUSE
  _Bool r = w_st_insert(t, k);
  __CPROVER_assert(r && w_st_size(t) == 1 && w_st_exists(t, k), "the tree is usable after clear()");
#endif
}
void HARNESS(void) { MK_ST() INPUT(uint8_t, in_k); c_clear(&tr, in_n, in_k); CANARY(); }

#elif defined(OP_dtor)
void c_dtor(ST* t, uint64_t n0)
__CPROVER_requires(st_wf(t) && n0 == T_SIZE(t) && ir_live_allocs == n0)
ST_FRAME
__CPROVER_ensures(ir_live_allocs == 0)
{ w_st_dtor(t); }
void HARNESS(void) { MK_ST() c_dtor(&tr, in_n); CANARY(); }

#elif defined(OP_traverse)
/* in-order traversal visits exactly size() keys in non-decreasing order; g is visited as often as it is stored */
void c_traverse(ST* t, uint8_t* out, uint8_t g, unsigned cg, unsigned j)
__CPROVER_requires(st_wf(t) && cg == cnt_key(T_ROOT(t), g, DEPTH) && j < NN - 1)
__CPROVER_assigns(__CPROVER_object_whole(out))
__CPROVER_ensures(1)
{
  uint64_t n = w_st_traverse(t, out, NN);
  __CPROVER_assert(n == T_SIZE(t), "traversal visits size() keys");
  if (j + 1 < n) __CPROVER_assert(DUP ? out[j] <= out[j + 1] : out[j] < out[j + 1], "traversal is in key order");
  unsigned c = 0; for (unsigned i = 0; i < NN; i++) if (i < n && out[i] == g) c++;
  __CPROVER_assert(c == cg, "every stored key is visited exactly as often as it is stored");
}
void HARNESS(void)
{
  MK_ST() INPUT(uint8_t, in_g); INPUT(unsigned, in_j); uint8_t out[NN];
  __CPROVER_assume(in_j < NN - 1);
  c_traverse(&tr, out, in_g, cnt_key(T_ROOT(&tr), in_g, DEPTH), in_j);
  CANARY();
}

#elif defined(OP_ctor)
void c_ctor(ST* t)
__CPROVER_assigns(*t)
__CPROVER_ensures(st_wf(t) && T_ROOT(t) == 0 && T_SIZE(t) == 0 && w_st_empty(t))
{ w_st_ctor(t); }
void HARNESS(void) { ST tr; ir_live_allocs = 0; ir_throw_allowed = 0; c_ctor(&tr); CANARY(); }
#else
#error "no OP_ selected"
#endif
