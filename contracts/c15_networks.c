/* C15 -- every sorting network sorts every input.
 * -DN=<2..16> -DFN=<wrapper>: direct call of the size-specific network on N fully symbolic bytes.
 * -DDISPATCH -DFN=<wrapper>: the size-dispatching sort(begin, end, cmp) for every n in 0..16.
 * -DGREATER: comparator std::greater (order reversed), default std::less.
 * Permutation = multiset equality, stated for a ghost value v: count(v) is unchanged (SAT proves it for every v).
 * The buffer has exactly n bytes, so any access outside [begin, end) is a bounds obligation. */
#include "verif.h"
#include "gen.h"
#ifdef GREATER
#define ORD(x, y) ((x) >= (y))
#else
#define ORD(x, y) ((x) <= (y))
#endif
#define NMAXN 16
/* -DZERO_ONE: inputs restricted to {0,1}^n (all 2^n of them): by the zero-one principle a comparator network that
 * sorts these sorts every input; the byte-valued jobs (small N) need no such argument. */
#ifdef ZERO_ONE
#define DOMAIN_OK(a, n) all01_(a, n)
#else
#define DOMAIN_OK(a, n) 1
#endif
static _Bool all01_(const uint8_t* a, unsigned n) { _Bool ok = 1; for (unsigned i = 0; i < NMAXN; i++) if (i < n && a[i] > 1) ok = 0; return ok; }
static unsigned count_(const uint8_t* a, unsigned n, uint8_t v) { unsigned c = 0; for (unsigned i = 0; i < NMAXN; i++) if (i < n && a[i] == v) c++; return c; }
static _Bool sorted_(const uint8_t* a, unsigned n) { _Bool ok = 1; for (unsigned i = 0; i + 1 < NMAXN; i++) if (i + 1 < n && !ORD(a[i], a[i + 1])) ok = 0; return ok; }

#if defined(CSWAP)
/* the compare-exchange functor: afterwards the pair is in order and is the same pair */
void c_cswap(uint8_t* l, uint8_t* r)
__CPROVER_requires(l != r)
__CPROVER_assigns(*l, *r)
__CPROVER_ensures(ORD(*l, *r))
__CPROVER_ensures((*l == __CPROVER_old(*l) && *r == __CPROVER_old(*r)) || (*l == __CPROVER_old(*r) && *r == __CPROVER_old(*l)))
{ FN(l, r); }
void HARNESS(void) { INPUT(uint8_t, in_l); INPUT(uint8_t, in_r); c_cswap(&in_l, &in_r); CANARY(); }

#elif defined(DISPATCH)
void c_sort(uint8_t* b, unsigned n, uint8_t v, unsigned cnt)
__CPROVER_requires(n <= 16 && cnt == count_(b, n, v) && DOMAIN_OK(b, n))
__CPROVER_assigns(__CPROVER_object_whole(b))
__CPROVER_ensures(sorted_(b, n))
__CPROVER_ensures(count_(b, n, v) == cnt)
{ FN(b, b + n); }
void HARNESS(void)
{
  INPUT_ARR(uint8_t, in_a, NMAXN); INPUT(unsigned, in_n); INPUT(uint8_t, in_v);
  __CPROVER_assume(in_n <= 16);
#ifdef DISPATCH_N
  in_n = DISPATCH_N;   /* one job per size, ASSIGNED so that the buffer size and the switch in sort() are constants */
#endif
  /* a local array (not a heap block): `end - begin` in the dispatcher's switch then folds to the constant size and only
   * the selected network is explored; out-of-range accesses are checked by the direct sortN jobs (exact-size buffers) */
  uint8_t buf[NMAXN];
  for (unsigned i = 0; i < NMAXN; i++) buf[i] = in_a[i];
  __CPROVER_assume(DOMAIN_OK(buf, in_n));
  c_sort(buf, in_n, in_v, count_(buf, in_n, in_v));
  CANARY();
}

#else
void c_sort(uint8_t* a, uint8_t v, unsigned cnt)
__CPROVER_requires(cnt == count_(a, N, v) && DOMAIN_OK(a, N))
__CPROVER_assigns(__CPROVER_object_whole(a))
__CPROVER_ensures(sorted_(a, N))
__CPROVER_ensures(count_(a, N, v) == cnt)
{ FN(a); }
void HARNESS(void)
{
  INPUT_ARR(uint8_t, in_a, NMAXN); INPUT(uint8_t, in_v);
  uint8_t* buf = malloc(N); __CPROVER_assume(buf != 0);
  for (unsigned i = 0; i < N; i++) buf[i] = in_a[i];
  __CPROVER_assume(DOMAIN_OK(buf, N));
  c_sort(buf, in_v, count_(buf, N, in_v));
  CANARY();
}
#endif
