/* C13 (RadixHeap part) -- the leaf functions every RadixHeap<.., KeyType, Radix> operation is built from, for one key
 * type and one radix per job (shims/radixheap.cpp -DKEY_T -DRADIX):
 *   IntegerRank          order-preserving bijection key -> rank (signed keys incl. the extremes)
 *   BucketComputation    the five facts the radix-heap argument needs (range, singleton first row, monotone in the key,
 *                        redistribution strictly downwards, buckets above the redistributed one keep their index)
 *   BitArray             set / clear / is_set / find_lsb / empty / clear_all from an arbitrary well-formed state
 * Everything is loop-free or has constant loop bounds: complete for the full key width.
 * NOT under contract: RadixHeap::push / pop / reorganize_ themselves (std::array of std::vector buckets); the composition
 * "these facts => top() is a minimum" is the textbook radix-heap argument and is stated, not machine-checked. */
#include "verif.h"
#include "gen.h"
/* from props/C13.py: KBITS (key width), KSIGNED, RADIX, NB (= num_buckets, recomputed there from its definition and
 * compared with the real constant below), BA_REC (BitArray is two-level), NCH (children), BA_T (struct name) */
#define RMAX ((KBITS == 64) ? ~(uint64_t)0 : (((uint64_t)1 << KBITS) - 1))
static uint64_t key_norm(uint64_t i)      /* the key as the wrapper's cast sees it, sign- or zero-extended to 64 bits */
{
#if KSIGNED
  return (uint64_t)((int64_t)(i << (64 - KBITS)) >> (64 - KBITS));
#else
  return i & RMAX;
#endif
}
static _Bool key_less(uint64_t a, uint64_t b)
{
#if KSIGNED
  return (int64_t)key_norm(a) < (int64_t)key_norm(b);
#else
  return key_norm(a) < key_norm(b);
#endif
}

#if defined(OP_rank)
/* i < j  <=>  rank(i) < rank(j);  int_at_rank(rank_of_int(i)) == i;  ranks fit the unsigned type of the same width */
void c_rank(uint64_t i, uint64_t j)
__CPROVER_assigns()
__CPROVER_ensures(key_less(i, j) == (w_rh_rank(i) < w_rh_rank(j)))
__CPROVER_ensures(w_rh_rank(i) <= RMAX && w_rh_unrank(w_rh_rank(i)) == key_norm(i))
{ w_rh_rank(i); }
void HARNESS(void) { INPUT(uint64_t, in_i); INPUT(uint64_t, in_j); c_rank(in_i, in_j); CANARY(); }

#elif defined(OP_bucket)
/* all keys below are ranks: unsigned, KBITS wide; L = insertion limit */
#if WHICH == 0
/* range; bucket 0 holds exactly the limit itself; the first row (buckets < Radix) holds one key per bucket */
void c_bucket_range(uint64_t x, uint64_t y, uint64_t L)
__CPROVER_requires(L <= x && x <= RMAX && L <= y && y <= RMAX)
__CPROVER_assigns()
__CPROVER_ensures(w_rh_num_buckets() == NB)
__CPROVER_ensures(w_rh_bucket(x, L) < NB)
__CPROVER_ensures((w_rh_bucket(x, L) == 0) == (x == L))
__CPROVER_ensures(!(w_rh_bucket(x, L) < RADIX && w_rh_bucket(x, L) == w_rh_bucket(y, L)) || x == y)
{ w_rh_bucket(x, L); }
void HARNESS(void) { INPUT(uint64_t, in_x); INPUT(uint64_t, in_y); INPUT(uint64_t, in_L); __CPROVER_assume(in_L <= in_x && in_x <= RMAX && in_L <= in_y && in_y <= RMAX); c_bucket_range(in_x, in_y, in_L); CANARY(); }
#elif WHICH == 1
/* monotone in the key: the first non-empty bucket holds the minimum */
void c_bucket_mono(uint64_t x, uint64_t y, uint64_t L)
__CPROVER_requires(L <= x && x <= y && y <= RMAX)
__CPROVER_assigns()
__CPROVER_ensures(w_rh_bucket(x, L) <= w_rh_bucket(y, L))
{ w_rh_bucket(x, L); }
void HARNESS(void) { INPUT(uint64_t, in_x); INPUT(uint64_t, in_y); INPUT(uint64_t, in_L); __CPROVER_assume(in_L <= in_x && in_x <= in_y && in_y <= RMAX); c_bucket_mono(in_x, in_y, in_L); CANARY(); }
#elif WHICH == 2
/* reorganize_(): bucket b >= Radix with minimum m is redistributed under the new limit m: every key of it lands in a
 * strictly smaller bucket (so the loop's push_back never targets the bucket being iterated, and progress is made) */
void c_bucket_redistribute(uint64_t x, uint64_t m, uint64_t L)
__CPROVER_requires(L <= m && m <= x && x <= RMAX && w_rh_bucket(m, L) == w_rh_bucket(x, L) && w_rh_bucket(x, L) >= RADIX)
__CPROVER_assigns()
__CPROVER_ensures(w_rh_bucket(x, m) < w_rh_bucket(x, L))
{ w_rh_bucket(x, m); }
void HARNESS(void) { INPUT(uint64_t, in_x); INPUT(uint64_t, in_m); INPUT(uint64_t, in_L); __CPROVER_assume(in_L <= in_m && in_m <= in_x && in_x <= RMAX); __CPROVER_assume(w_rh_bucket(in_m, in_L) == w_rh_bucket(in_x, in_L) && w_rh_bucket(in_x, in_L) >= RADIX); c_bucket_redistribute(in_x, in_m, in_L); CANARY(); }
#elif WHICH == 3
/* ... and every key of a bucket above the redistributed one keeps its bucket index under the new limit (those buckets
 * are not touched by reorganize_(), later pushes are indexed with the new limit) */
void c_bucket_stable(uint64_t y, uint64_t m, uint64_t L)
__CPROVER_requires(L <= m && m <= y && y <= RMAX && w_rh_bucket(m, L) < w_rh_bucket(y, L))
__CPROVER_assigns()
__CPROVER_ensures(w_rh_bucket(y, m) == w_rh_bucket(y, L))
{ w_rh_bucket(y, m); }
void HARNESS(void) { INPUT(uint64_t, in_y); INPUT(uint64_t, in_m); INPUT(uint64_t, in_L); __CPROVER_assume(in_L <= in_m && in_m <= in_y && in_y <= RMAX); __CPROVER_assume(w_rh_bucket(in_m, in_L) < w_rh_bucket(in_y, in_L)); c_bucket_stable(in_y, in_m, in_L); CANARY(); }
#elif WHICH == 4
/* lower_bound / upper_bound: the key range of bucket idx under limit 0 */
void c_bucket_bounds(uint64_t x, uint64_t idx)
__CPROVER_requires(x <= RMAX && idx < NB)
__CPROVER_assigns()
__CPROVER_ensures(w_rh_lower(idx) <= w_rh_upper(idx) && w_rh_upper(idx) <= RMAX)
__CPROVER_ensures(w_rh_bucket(w_rh_lower(idx), 0) == idx && w_rh_bucket(w_rh_upper(idx), 0) == idx)
__CPROVER_ensures(w_rh_lower(w_rh_bucket(x, 0)) <= x && x <= w_rh_upper(w_rh_bucket(x, 0)))
{ w_rh_lower(idx); }
void HARNESS(void) { INPUT(uint64_t, in_x); INPUT(uint64_t, in_idx); __CPROVER_assume(in_x <= RMAX && in_idx < NB); c_bucket_bounds(in_x, in_idx); CANARY(); }
#endif

#elif defined(OP_bitarray)
typedef BA_T BA;
#if BA_REC
#define WORD(b, c) ((uint64_t)(b)->f0.f0.f0.a[c].f0)
#define ROOTW(b)   ((uint64_t)(b)->f0.f1.f0)
#define CHBITS 64
#else
#define WORD(b, c) ((uint64_t)(b)->f0.f0)
#define CHBITS 64
#endif
static _Bool ba_bit(const BA* b, uint64_t j) { return (WORD(b, j / CHBITS) >> (j % CHBITS)) & 1; }
static _Bool ba_any(const BA* b) { for (unsigned c = 0; c < NCH; c++) if (WORD(b, c) != 0) return 1; return 0; }
/* well-formed: no bit at an index >= NB; two-level: root bit c set <=> child c non-empty */
static _Bool ba_wf(const BA* b)
{
  for (unsigned c = 0; c < NCH; c++) {
    unsigned valid = (NB - c * CHBITS >= CHBITS) ? CHBITS : (NB - c * CHBITS);
    if (valid < 64 && (WORD(b, c) >> valid) != 0) return 0;
#if BA_REC
    if (((ROOTW(b) >> c) & 1) != (WORD(b, c) != 0)) return 0;
#endif
  }
#if BA_REC
  if ((ROOTW(b) >> NCH) != 0) return 0;
#endif
  return 1;
}
#define BA_FRAME __CPROVER_assigns(*b)

#if WHICH == 0
void c_ba_set(BA* b, uint64_t i, uint64_t g, _Bool og)
__CPROVER_requires(ba_wf(b) && i < NB && g < NB && og == ba_bit(b, g))
BA_FRAME
__CPROVER_ensures(ba_wf(b) && ba_bit(b, g) == (g == i || og) && w_ba_is_set(b, g) == ba_bit(b, g))
{ w_ba_set(b, i); }
void HARNESS(void) { INPUT(BA, in_ba); INPUT(uint64_t, in_i); INPUT(uint64_t, in_g); __CPROVER_assume(ba_wf(&in_ba) && in_i < NB && in_g < NB); c_ba_set(&in_ba, in_i, in_g, ba_bit(&in_ba, in_g)); CANARY(); }
#elif WHICH == 1
void c_ba_clear(BA* b, uint64_t i, uint64_t g, _Bool og)
__CPROVER_requires(ba_wf(b) && i < NB && g < NB && og == ba_bit(b, g))
BA_FRAME
__CPROVER_ensures(ba_wf(b) && ba_bit(b, g) == (g != i && og) && w_ba_is_set(b, g) == ba_bit(b, g))
{ w_ba_clear(b, i); }
void HARNESS(void) { INPUT(BA, in_ba); INPUT(uint64_t, in_i); INPUT(uint64_t, in_g); __CPROVER_assume(ba_wf(&in_ba) && in_i < NB && in_g < NB); c_ba_clear(&in_ba, in_i, in_g, ba_bit(&in_ba, in_g)); CANARY(); }
#elif WHICH == 2
/* find_lsb: the smallest set index; empty(): no bit set */
uint64_t c_ba_find_lsb(const BA* b, uint64_t g)
__CPROVER_requires(ba_wf(b) && ba_any(b) && g < NB)
__CPROVER_assigns()
__CPROVER_ensures(__CPROVER_return_value < NB && ba_bit(b, __CPROVER_return_value) && (!ba_bit(b, g) || __CPROVER_return_value <= g))
__CPROVER_ensures(!w_ba_empty(b))
{ return w_ba_find_lsb(b); }
void HARNESS(void) { INPUT(BA, in_ba); INPUT(uint64_t, in_g); __CPROVER_assume(ba_wf(&in_ba) && ba_any(&in_ba) && in_g < NB); c_ba_find_lsb(&in_ba, in_g); CANARY(); }
#elif WHICH == 3
void c_ba_empty(BA* b, _Bool which)
__CPROVER_requires(ba_wf(b))
BA_FRAME
__CPROVER_ensures(ba_wf(b))
{
  _Bool e = w_ba_empty(b);
  __CPROVER_assert(e == !ba_any(b), "empty() <=> no bit is set");
  if (which) { w_ba_clear_all(b); __CPROVER_assert(!ba_any(b) && w_ba_empty(b), "clear_all() leaves no bit set"); }
  else { w_ba_ctor(b); __CPROVER_assert(!ba_any(b) && w_ba_empty(b), "a constructed BitArray has no bit set"); }
}
void HARNESS(void) { INPUT(BA, in_ba); INPUT(_Bool, in_which); __CPROVER_assume(ba_wf(&in_ba)); c_ba_empty(&in_ba, in_which); CANARY(); }
#endif
#else
#error "no OP_ selected"
#endif
