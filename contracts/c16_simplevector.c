/* C16 -- SimpleVector<Elem, Mode> constructs and destroys each element exactly once (Normal mode) and follows the
 * documented mode contract otherwise.  BOUNDED: n <= NMAX elements (all loops are bounded by the size).
 * Pre-states are built by the real constructor (the array of `new Elem[n]` carries clang's array cookie, which a
 * hand-built state could not reproduce) and then given arbitrary element values. */
#include "verif.h"
#include "gen.h"
typedef struct S_class_tlx__SimpleVector SV;      /* Mode = Normal */
typedef struct S_class_tlx__SimpleVector_0 SVD;   /* Mode = NoInitButDestroy */
typedef struct S_class_tlx__SimpleVector_1 SVN;   /* Mode = NoInitNoDestroy */
typedef struct S_struct_Elem Elem;
#define V_size f0
#define V_array f1
#define E_v f0
/* `new Elem[n]` (Normal mode) puts an 8-byte element count in front of the array: the block starts 8 bytes earlier */
#if MODE == 0
#define BLOCK(arr) ((uint8_t*)(arr) - 8)
#else
#define BLOCK(arr) ((uint8_t*)(arr))
#endif
#ifndef NMAX
#define NMAX 4
#endif

Elem* g_track; _Bool g_alive; uint64_t g_nctor, g_ndtor, g_nassign;
void vf_ctor(uint8_t* slot, uint32_t val)
{ g_nctor++; if ((Elem*)slot == g_track) { __CPROVER_assert(!g_alive, "an element is constructed only into a dead slot"); g_alive = 1; } }
void vf_dtor(uint8_t* slot)
{ g_ndtor++; if ((Elem*)slot == g_track) { __CPROVER_assert(g_alive, "only a live element is destroyed"); g_alive = 0; } }
void vf_assign(uint8_t* slot, uint32_t val)
{ g_nassign++; if ((Elem*)slot == g_track) { __CPROVER_assert(g_alive, "only a live element is assigned to"); } }

static uint64_t umin(uint64_t a, uint64_t b) { return a < b ? a : b; }
/* build an arbitrary vector of in_n <= NMAX elements through the real constructor, track slot in_gs */
#define MK_SV(sv, sfx)                                                                                   \
  SV sv; INPUT(uint64_t, in_n##sfx); INPUT_ARR(uint32_t, in_vals##sfx, NMAX);                             \
  __CPROVER_assume(in_n##sfx <= NMAX);                                                                   \
  g_track = 0; g_alive = 0; g_nctor = 0; g_ndtor = 0; g_nassign = 0;                                      \
  w_sv_ctor(&sv, in_n##sfx);                                                                             \
  for (unsigned i_ = 0; i_ < NMAX; i_++) if (i_ < in_n##sfx) sv.V_array[i_].E_v = in_vals##sfx[i_];
#define RESET_COUNTS() do { g_nctor = 0; g_ndtor = 0; g_nassign = 0; } while (0)

#if defined(OP_ctor)
/* SimpleVector(n): n elements constructed (Normal) / none (NoInit modes); one block obtained iff n > 0 */
void c_ctor(uint8_t* mem, uint64_t n)
__CPROVER_requires(n <= NMAX)
__CPROVER_assigns(__CPROVER_object_whole(mem), g_alive, g_nctor, g_ndtor, g_nassign, ir_live_allocs)
__CPROVER_ensures(((SV*)mem)->V_size == n && (n == 0 ? ((SV*)mem)->V_array == 0 : ((SV*)mem)->V_array != 0))
__CPROVER_ensures(g_nctor == (MODE == 0 ? n : 0) && g_ndtor == 0 && ir_live_allocs == __CPROVER_old(ir_live_allocs) + (n > 0))
{
#if MODE == 0
  w_sv_ctor((SV*)mem, n);
#elif MODE == 1
  w_svd_ctor((SVD*)mem, n);
#else
  w_svn_ctor((SVN*)mem, n);
#endif
}
void HARNESS(void)
{
  SV sv; INPUT(uint64_t, in_n); __CPROVER_assume(in_n <= NMAX);
  g_track = 0; g_alive = 0; RESET_COUNTS(); ir_live_allocs = 0;
  c_ctor((uint8_t*)&sv, in_n);
  if (in_n > 0) sv.V_array[in_n - 1].E_v = 1;   /* the storage really holds n elements */
  CANARY();
}

#elif defined(OP_dtor)
/* ~SimpleVector / destroy(): every element destroyed exactly once (Normal, NoInitButDestroy) / never (NoInitNoDestroy);
 * the block is returned exactly once */
void c_dtor(uint8_t* mem, uint64_t n, _Bool use_destroy, Elem* arr)
__CPROVER_requires(((SV*)mem)->V_size == n && n <= NMAX && ((SV*)mem)->V_array == arr)
__CPROVER_assigns(__CPROVER_object_whole(mem), g_alive, g_nctor, g_ndtor, g_nassign, ir_live_allocs)
__CPROVER_assigns(arr != 0: __CPROVER_object_whole(arr))
__CPROVER_frees(arr != 0: BLOCK(arr))
__CPROVER_ensures(g_nctor == 0 && g_ndtor == (MODE == 2 ? 0 : n) && (MODE == 2 || !g_alive))
__CPROVER_ensures(ir_live_allocs == __CPROVER_old(ir_live_allocs) - (n > 0))
__CPROVER_ensures(!use_destroy || (((SV*)mem)->V_size == 0 && ((SV*)mem)->V_array == 0))
{
#if MODE == 0
  if (use_destroy) w_sv_destroy((SV*)mem); else w_sv_dtor((SV*)mem);
#elif MODE == 1
  w_svd_dtor((SVD*)mem);
#else
  w_svn_dtor((SVN*)mem);
#endif
}
void HARNESS(void)
{
  INPUT(uint64_t, in_n); INPUT(uint64_t, in_gs); INPUT(_Bool, in_destroy);
  __CPROVER_assume(in_n <= NMAX && in_gs < NMAX);
  g_track = 0; g_alive = 0; RESET_COUNTS(); ir_live_allocs = 0;
  SV sv;
#if MODE == 0
  w_sv_ctor(&sv, in_n);
#elif MODE == 1
  w_svd_ctor((SVD*)&sv, in_n);
  /* documented use of NoInitButDestroy: the caller constructs the elements */
  for (unsigned i = 0; i < NMAX; i++) if (i < in_n) { sv.V_array[i].E_v = 0; }
#else
  w_svn_ctor((SVN*)&sv, in_n);
  in_destroy = 0;
#endif
#if MODE != 0
  in_destroy = 0;
#endif
  if (in_gs < in_n) { g_track = sv.V_array + in_gs; g_alive = (MODE != 2); }
  RESET_COUNTS();
  c_dtor((uint8_t*)&sv, in_n, in_destroy, sv.V_array);
  CANARY();
}

#elif defined(OP_move_ctor)
void c_move_ctor(SV* dst, SV* src)
__CPROVER_assigns(*dst, *src)
__CPROVER_ensures(dst->V_size == __CPROVER_old(src->V_size) && dst->V_array == __CPROVER_old(src->V_array) && src->V_size == 0 && src->V_array == 0)
__CPROVER_ensures(g_nctor == 0 && g_ndtor == 0 && g_nassign == 0)
{ w_sv_move_ctor(dst, src); }
void HARNESS(void) { MK_SV(a, ) RESET_COUNTS(); SV d; c_move_ctor(&d, &a); CANARY(); }

#elif defined(OP_move_assign)
/* a = std::move(b), a != b: a's elements destroyed once and its block returned; a takes b's array; b empty */
void c_move_assign(SV* a, SV* b, uint64_t na, Elem* arr_a)
__CPROVER_requires(a != b && a->V_size == na && na <= NMAX && a->V_array == arr_a)
__CPROVER_assigns(*a, *b, g_alive, g_nctor, g_ndtor, g_nassign, ir_live_allocs)
__CPROVER_assigns(arr_a != 0: __CPROVER_object_whole(arr_a))
__CPROVER_frees(arr_a != 0: BLOCK(arr_a))
__CPROVER_ensures(a->V_size == __CPROVER_old(b->V_size) && a->V_array == __CPROVER_old(b->V_array) && b->V_size == 0 && b->V_array == 0)
__CPROVER_ensures(g_nctor == 0 && g_ndtor == na && !g_alive && ir_live_allocs == __CPROVER_old(ir_live_allocs) - (na > 0))
{ w_sv_move_assign(a, b); }
void HARNESS(void)
{
  ir_live_allocs = 0;
  MK_SV(a, ) MK_SV(b, 2)
  INPUT(uint64_t, in_gs); __CPROVER_assume(in_gs < NMAX);
  if (in_gs < in_n) { g_track = a.V_array + in_gs; g_alive = 1; }
  RESET_COUNTS();
  c_move_assign(&a, &b, in_n, a.V_array);
  CANARY();
}

#elif defined(OP_self_move_assign)
void c_self(SV* a)
__CPROVER_assigns(*a, g_alive, g_nctor, g_ndtor, g_nassign, ir_live_allocs)
__CPROVER_ensures(a->V_size == __CPROVER_old(a->V_size) && a->V_array == __CPROVER_old(a->V_array))
__CPROVER_ensures(g_nctor == 0 && g_ndtor == 0 && ir_live_allocs == __CPROVER_old(ir_live_allocs))
{ w_sv_move_assign(a, a); }
void HARNESS(void) { ir_live_allocs = 0; MK_SV(a, ) RESET_COUNTS(); c_self(&a); CANARY(); }

#elif defined(OP_swap)
void c_swap(SV* a, SV* b)
__CPROVER_assigns(*a, *b)
__CPROVER_ensures(a->V_size == __CPROVER_old(b->V_size) && a->V_array == __CPROVER_old(b->V_array) && b->V_size == __CPROVER_old(a->V_size) && b->V_array == __CPROVER_old(a->V_array))
__CPROVER_ensures(g_nctor == 0 && g_ndtor == 0 && g_nassign == 0)
{ w_sv_swap(a, b); }
void HARNESS(void) { MK_SV(a, ) MK_SV(b, 2) RESET_COUNTS(); c_swap(&a, &b); CANARY(); }

#elif defined(OP_resize)
/* resize(m): m new elements constructed, the first min(n, m) values moved over, the n old elements destroyed once,
 * old block returned, new block obtained */
void c_resize(SV* a, uint64_t n, uint64_t m, Elem* old_arr, uint64_t j, uint32_t vj)
__CPROVER_requires(a->V_size == n && n <= NMAX && m <= NMAX && a->V_array == old_arr && old_arr != 0 && j < umin(n, m) && vj == old_arr[j].E_v)
__CPROVER_assigns(*a, __CPROVER_object_whole(old_arr), g_alive, g_nctor, g_ndtor, g_nassign, ir_live_allocs)
__CPROVER_frees(BLOCK(old_arr))
__CPROVER_ensures(a->V_size == m && a->V_array != 0 && a->V_array[j].E_v == vj)
__CPROVER_ensures(g_nctor == m && g_ndtor == n && g_nassign == umin(n, m) && !g_alive && ir_live_allocs == __CPROVER_old(ir_live_allocs))
{ w_sv_resize(a, m); }
void HARNESS(void)
{
  ir_live_allocs = 0;
  MK_SV(a, )
  INPUT(uint64_t, in_m); INPUT(uint64_t, in_gs); INPUT(uint64_t, in_j);
  __CPROVER_assume(in_n >= 1 && in_m >= 1 && in_m <= NMAX && in_gs < in_n && in_j < umin(in_n, in_m));
  g_track = a.V_array + in_gs; g_alive = 1;
  RESET_COUNTS();
  c_resize(&a, in_n, in_m, a.V_array, in_j, a.V_array[in_j].E_v);
  CANARY();
}

#elif defined(OP_resize_edge)
/* resize from / to zero elements and on a never-allocated vector */
void c_resize_edge(SV* a, uint64_t n, uint64_t m)
__CPROVER_requires(a->V_size == n && n <= NMAX && m <= NMAX && (n == 0 || m == 0))
__CPROVER_assigns(*a, g_alive, g_nctor, g_ndtor, g_nassign, ir_live_allocs)
__CPROVER_assigns(a->V_array != 0: __CPROVER_object_whole(a->V_array))
__CPROVER_frees(a->V_array != 0: BLOCK(a->V_array))
__CPROVER_ensures(a->V_size == m && g_nctor == m && g_ndtor == n && g_nassign == 0)
{ w_sv_resize(a, m); }
void HARNESS(void)
{
  ir_live_allocs = 0;
  MK_SV(a, )
  INPUT(uint64_t, in_m);
  __CPROVER_assume(in_m <= NMAX && (in_n == 0 || in_m == 0));
  RESET_COUNTS();
  c_resize_edge(&a, in_n, in_m);
  CANARY();
}

#elif defined(OP_fill)
void c_fill(SV* a, Elem* x, uint64_t n, uint64_t j)
__CPROVER_requires(a->V_size == n && n <= NMAX && j < n)
__CPROVER_assigns(g_nassign)
__CPROVER_assigns(a->V_array != 0: __CPROVER_object_whole(a->V_array))
__CPROVER_ensures(a->V_array[j].E_v == x->E_v && g_nctor == 0 && g_ndtor == 0 && g_nassign == n && w_sv_size(a) == n && w_sv_at(a, j) == a->V_array + j)
{ w_sv_fill(a, x); }
void HARNESS(void)
{
  MK_SV(a, )
  INPUT(Elem, in_x); INPUT(uint64_t, in_j); __CPROVER_assume(in_j < in_n);
  RESET_COUNTS();
  c_fill(&a, &in_x, in_n, in_j);
  CANARY();
}
#else
#error "no OP_ selected"
#endif
