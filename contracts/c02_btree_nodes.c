/* C01 / C02, layer A -- contracts of the B+ tree node primitives, each enforced on ARBITRARY node contents (symbolic
 * fill degrees and keys; children are opaque pointers):
 *   find_lower / find_upper on leaf and inner nodes (linear or binary search, depending on the shim's BIN setting):
 *       first slot whose key is not less than / greater than the search key, on any sorted node;
 *   shift_left_leaf, shift_right_leaf, shift_left_inner, shift_right_inner, merge_leaves, merge_inner:
 *       the concatenation of the two nodes' keys (inner: with the parent's separator threaded through) and of their
 *       children is preserved (ghost position), the new fill degrees are as documented, the parent separator /
 *       returned last key equals the new last key of the left node, the leaf chain stays linked;
 *   split_leaf_node, split_inner_node: the node is divided into two nodes whose concatenation (inner: around the
 *       returned separator) is the old content, both halves are at least half full, one node is allocated.
 * These are complete for the configured node capacity (loops are bounded by the slot count). */
#include "verif.h"
#include "gen.h"
typedef LEAF_T Leaf; typedef INNER_T Inner; typedef NODE_T Node; typedef BT_T BT;
typedef struct S_struct_Res Res;
typedef uint8_t key_t_;
#define N_LEVEL(n) ((n)->f0.f0)
#define N_USE(n) ((n)->f0.f1)
#define L_PREV(l) ((l)->f2)
#define L_NEXT(l) ((l)->f3)
#define L_KEYS(l) ((l)->f4.a)
#define I_KEYS(n) ((n)->f1.a)
#define I_CH(n) ((n)->f2.a)
#define TAILL(t) ((t)->f0.f2)
#define ST_LEAVES(t) ((t)->f0.f3.f1)
#define ST_INNER(t) ((t)->f0.f3.f2)
#define LMIN (LS / 2)
#define IMIN (IS / 2)
#if GREATER
#define LESS(a, b) ((a) > (b))
#else
#define LESS(a, b) ((a) < (b))
#endif
#define R_OK 0
#define R_UPDATE_LASTKEY 2
#define R_FIXMERGE 4

static _Bool sorted_keys(const key_t_* k, unsigned n, unsigned cap)
{ for (unsigned i = 0; i + 1 < cap; i++) if (i + 1 < n && LESS(k[i + 1], k[i])) return 0; return 1; }

#if defined(OP_find)
/* WHICH 0 find_lower(leaf) 1 find_lower(inner) 2 find_upper(leaf) 3 find_upper(inner) */
uint16_t c_find(BT* t, Leaf* lf, Inner* in, key_t_ k, unsigned g)
__CPROVER_requires(N_USE(lf) <= LS && N_USE(in) <= IS && sorted_keys(L_KEYS(lf), N_USE(lf), LS) && sorted_keys(I_KEYS(in), N_USE(in), IS) && g < (LS > IS ? LS : IS))
__CPROVER_assigns()
__CPROVER_ensures(__CPROVER_return_value <= ((WHICH & 1) ? N_USE(in) : N_USE(lf)))
/* every slot before the result is before the search key (lower: key < k; upper: !(k < key)), the result slot is not */
__CPROVER_ensures(g >= __CPROVER_return_value || ((WHICH & 2) ? !LESS(k, ((WHICH & 1) ? I_KEYS(in) : L_KEYS(lf))[g]) : LESS(((WHICH & 1) ? I_KEYS(in) : L_KEYS(lf))[g], k)))
__CPROVER_ensures(__CPROVER_return_value == ((WHICH & 1) ? N_USE(in) : N_USE(lf)) ||
                  ((WHICH & 2) ? LESS(k, ((WHICH & 1) ? I_KEYS(in) : L_KEYS(lf))[__CPROVER_return_value]) : !LESS(((WHICH & 1) ? I_KEYS(in) : L_KEYS(lf))[__CPROVER_return_value], k)))
{
#if WHICH == 0
  return w_bt_find_lower_leaf(t, lf, k);
#elif WHICH == 1
  return w_bt_find_lower_inner(t, in, k);
#elif WHICH == 2
  return w_bt_find_upper_leaf(t, lf, k);
#else
  return w_bt_find_upper_inner(t, in, k);
#endif
}
void HARNESS(void)
{
  INPUT(BT, in_t); INPUT(Leaf, in_lf); INPUT(Inner, in_in); INPUT(key_t_, in_k); INPUT(unsigned, in_g);
  __CPROVER_assume(N_USE(&in_lf) <= LS && N_USE(&in_in) <= IS && sorted_keys(L_KEYS(&in_lf), N_USE(&in_lf), LS) && sorted_keys(I_KEYS(&in_in), N_USE(&in_in), IS) && in_g < (LS > IS ? LS : IS));
  ir_throw_allowed = 0; c_find(&in_t, &in_lf, &in_in, in_k, in_g); CANARY();
}

#elif defined(OP_shift_leaf)
/* DIR 0: shift_left_leaf (right -> left), DIR 1: shift_right_leaf (left -> right).  cat(g) = g-th key of left ++ right */
static key_t_ cat_leaf(const Leaf* l, const Leaf* r, unsigned g) { return g < N_USE(l) ? L_KEYS(l)[g] : L_KEYS(r)[g - N_USE(l)]; }
void c_shift_leaf(Leaf* l, Leaf* r, Inner* p, uint32_t ps, Res* res, unsigned g, key_t_ kg, unsigned nl, unsigned nr)
__CPROVER_requires(nl == N_USE(l) && nr == N_USE(r) && nl <= LS && nr <= LS && N_USE(p) <= IS && ps <= N_USE(p) && (DIR == 0 ? ps <= N_USE(p) : ps < N_USE(p)))
__CPROVER_requires(DIR == 0 ? (nl < nr && nl + ((nr - nl) >> 1) < LS) : (nl > nr && nr + ((nl - nr) >> 1) < LS))
__CPROVER_requires(L_NEXT(l) == r && L_PREV(r) == l && I_CH(p)[ps] == (Node*)l && g < nl + nr && kg == cat_leaf(l, r, g) && (DIR == 1 || (nr - nl) >> 1 >= 1) && (DIR == 0 || (nl - nr) >> 1 >= 1))
__CPROVER_assigns(*l, *r, *p, *res)
/* the documented number of entries moves, nothing is lost or reordered */
__CPROVER_ensures(N_USE(l) == (DIR == 0 ? nl + ((nr - nl) >> 1) : nl - ((nl - nr) >> 1)) && N_USE(l) + N_USE(r) == nl + nr)
__CPROVER_ensures(cat_leaf(l, r, g) == kg)
/* the separator in the parent (or the returned last key when the left node is the parent's last child) is the left node's new last key */
__CPROVER_ensures(ps < N_USE(p) ? (I_KEYS(p)[ps] == L_KEYS(l)[N_USE(l) - 1] && (DIR == 1 || res->f0 == R_OK))
                                : (DIR == 0 && res->f0 == R_UPDATE_LASTKEY && res->f1 == L_KEYS(l)[N_USE(l) - 1]))
__CPROVER_ensures(L_NEXT(l) == r && L_PREV(r) == l && N_USE(p) == __CPROVER_old(N_USE(p)))
{ if (DIR == 0) w_bt_shift_left_leaf(l, r, p, ps, res); else w_bt_shift_right_leaf(l, r, p, ps); }
void HARNESS(void)
{
  INPUT(Leaf, in_l); INPUT(Leaf, in_r); INPUT(Inner, in_p); INPUT(uint32_t, in_ps); INPUT(unsigned, in_g); Res res;
  unsigned nl = N_USE(&in_l), nr = N_USE(&in_r);
  __CPROVER_assume(nl <= LS && nr <= LS && N_USE(&in_p) <= IS && (DIR == 0 ? in_ps <= N_USE(&in_p) : in_ps < N_USE(&in_p)));
  __CPROVER_assume(DIR == 0 ? (nl < nr && nl + ((nr - nl) >> 1) < LS && ((nr - nl) >> 1) >= 1) : (nl > nr && nr + ((nl - nr) >> 1) < LS && ((nl - nr) >> 1) >= 1));
  L_NEXT(&in_l) = &in_r; L_PREV(&in_r) = &in_l; I_CH(&in_p)[in_ps <= IS ? in_ps : 0] = (Node*)&in_l;
  __CPROVER_assume(in_g < nl + nr);
  ir_throw_allowed = 0;
  c_shift_leaf(&in_l, &in_r, &in_p, in_ps, &res, in_g, cat_leaf(&in_l, &in_r, in_g), nl, nr); CANARY();
}

#elif defined(OP_shift_inner)
/* inner nodes: the key sequence is left.keys ++ [parent separator] ++ right.keys, the child sequence left.children ++ right.children */
static key_t_ cat_ikey(const Inner* l, const Inner* r, key_t_ sep, unsigned g) { return g < N_USE(l) ? I_KEYS(l)[g] : (g == N_USE(l) ? sep : I_KEYS(r)[g - N_USE(l) - 1]); }
static Node* cat_child(const Inner* l, const Inner* r, unsigned g) { return g <= N_USE(l) ? I_CH(l)[g] : I_CH(r)[g - N_USE(l) - 1]; }
void c_shift_inner(Inner* l, Inner* r, Inner* p, uint32_t ps, unsigned g, key_t_ kg, Node* cg, unsigned nl, unsigned nr)
__CPROVER_requires(nl == N_USE(l) && nr == N_USE(r) && nl <= IS && nr <= IS && N_USE(p) <= IS && ps < N_USE(p) && I_CH(p)[ps] == (Node*)l)
__CPROVER_requires(DIR == 0 ? (nl < nr && nl + ((nr - nl) >> 1) < IS && ((nr - nl) >> 1) >= 1) : (nl > nr && nr + ((nl - nr) >> 1) < IS && ((nl - nr) >> 1) >= 1))
__CPROVER_requires(g <= nl + nr + 1 && (g > nl + nr || kg == cat_ikey(l, r, I_KEYS(p)[ps], g)) && cg == cat_child(l, r, g))
__CPROVER_assigns(*l, *r, *p)
__CPROVER_ensures(N_USE(l) == (DIR == 0 ? nl + ((nr - nl) >> 1) : nl - ((nl - nr) >> 1)) && N_USE(l) + N_USE(r) == nl + nr)
__CPROVER_ensures((g > nl + nr || cat_ikey(l, r, I_KEYS(p)[ps], g) == kg) && cat_child(l, r, g) == cg)
__CPROVER_ensures(N_USE(p) == __CPROVER_old(N_USE(p)))
{ if (DIR == 0) w_bt_shift_left_inner(l, r, p, ps); else w_bt_shift_right_inner(l, r, p, ps); }
void HARNESS(void)
{
  INPUT(Inner, in_l); INPUT(Inner, in_r); INPUT(Inner, in_p); INPUT(uint32_t, in_ps); INPUT(unsigned, in_g);
  unsigned nl = N_USE(&in_l), nr = N_USE(&in_r);
  __CPROVER_assume(nl <= IS && nr <= IS && N_USE(&in_p) <= IS && in_ps < N_USE(&in_p));
  __CPROVER_assume(DIR == 0 ? (nl < nr && nl + ((nr - nl) >> 1) < IS && ((nr - nl) >> 1) >= 1) : (nl > nr && nr + ((nl - nr) >> 1) < IS && ((nl - nr) >> 1) >= 1));
  I_CH(&in_p)[in_ps] = (Node*)&in_l; if (in_ps + 1 <= IS) I_CH(&in_p)[in_ps + 1] = (Node*)&in_r;
  __CPROVER_assume(in_g <= nl + nr + 1);
  ir_throw_allowed = 0;
  c_shift_inner(&in_l, &in_r, &in_p, in_ps, in_g, in_g <= nl + nr ? cat_ikey(&in_l, &in_r, I_KEYS(&in_p)[in_ps], in_g) : 0, cat_child(&in_l, &in_r, in_g), nl, nr); CANARY();
}

#elif defined(OP_merge_leaves)
void c_merge_leaves(BT* t, Leaf* l, Leaf* r, Inner* p, Leaf* after, Res* res, unsigned g, key_t_ kg, unsigned nl, unsigned nr)
__CPROVER_requires(nl == N_USE(l) && nr == N_USE(r) && nl + nr < LS && L_NEXT(l) == r && L_PREV(r) == l && L_NEXT(r) == after && (after == 0 ? TAILL(t) == r : L_PREV(after) == r))
__CPROVER_requires(g < nl + nr && kg == (g < nl ? L_KEYS(l)[g] : L_KEYS(r)[g - nl]))
__CPROVER_assigns(*t, *l, *r, *res)
__CPROVER_assigns(after != 0: __CPROVER_object_whole(after))
__CPROVER_ensures(N_USE(l) == nl + nr && N_USE(r) == 0 && L_KEYS(l)[g] == kg && res->f0 == R_FIXMERGE)
/* the leaf chain skips the emptied right node in both directions; tail updated when it was the last leaf */
__CPROVER_ensures(L_NEXT(l) == after && (after == 0 ? TAILL(t) == l : L_PREV(after) == l))
{ w_bt_merge_leaves(t, l, r, p, res); }
void HARNESS(void)
{
  INPUT(BT, in_t); INPUT(Leaf, in_l); INPUT(Leaf, in_r); INPUT(Leaf, in_after); INPUT(Inner, in_p); INPUT(_Bool, in_last); INPUT(unsigned, in_g); Res res;
  unsigned nl = N_USE(&in_l), nr = N_USE(&in_r);
  __CPROVER_assume(nl + nr < LS && nl <= LS && nr <= LS && in_g < nl + nr);
  Leaf* after = in_last ? 0 : &in_after;
  L_NEXT(&in_l) = &in_r; L_PREV(&in_r) = &in_l; L_NEXT(&in_r) = after; if (after) L_PREV(after) = &in_r; else TAILL(&in_t) = &in_r;
  N_LEVEL(&in_l) = 0; N_LEVEL(&in_r) = 0; N_LEVEL(&in_p) = 1;
  ir_throw_allowed = 0;
  c_merge_leaves(&in_t, &in_l, &in_r, &in_p, after, &res, in_g, in_g < nl ? L_KEYS(&in_l)[in_g] : L_KEYS(&in_r)[in_g - nl], nl, nr); CANARY();
}

#elif defined(OP_merge_inner)
static key_t_ cat_ikey(const Inner* l, const Inner* r, key_t_ sep, unsigned g) { return g < N_USE(l) ? I_KEYS(l)[g] : (g == N_USE(l) ? sep : I_KEYS(r)[g - N_USE(l) - 1]); }
static Node* cat_child(const Inner* l, const Inner* r, unsigned g) { return g <= N_USE(l) ? I_CH(l)[g] : I_CH(r)[g - N_USE(l) - 1]; }
void c_merge_inner(Inner* l, Inner* r, Inner* p, uint32_t ps, Res* res, unsigned g, key_t_ kg, Node* cg, unsigned nl, unsigned nr)
__CPROVER_requires(nl == N_USE(l) && nr == N_USE(r) && nl + nr < IS && N_USE(p) <= IS && ps < N_USE(p) && I_CH(p)[ps] == (Node*)l)
__CPROVER_requires(g <= nl + nr + 1 && (g > nl + nr || kg == cat_ikey(l, r, I_KEYS(p)[ps], g)) && cg == cat_child(l, r, g))
__CPROVER_assigns(*l, *r, *res)
__CPROVER_ensures(N_USE(l) == nl + nr + 1 && N_USE(r) == 0 && res->f0 == R_FIXMERGE)
__CPROVER_ensures((g > nl + nr || I_KEYS(l)[g] == kg) && I_CH(l)[g] == cg)
{ w_bt_merge_inner(l, r, p, ps, res); }
void HARNESS(void)
{
  INPUT(Inner, in_l); INPUT(Inner, in_r); INPUT(Inner, in_p); INPUT(uint32_t, in_ps); INPUT(unsigned, in_g); Res res;
  unsigned nl = N_USE(&in_l), nr = N_USE(&in_r);
  __CPROVER_assume(nl + nr < IS && N_USE(&in_p) <= IS && in_ps < N_USE(&in_p) && in_g <= nl + nr + 1);
  I_CH(&in_p)[in_ps] = (Node*)&in_l; I_CH(&in_p)[in_ps + 1] = (Node*)&in_r;
  N_LEVEL(&in_l) = 1; N_LEVEL(&in_r) = 1; N_LEVEL(&in_p) = 2;
  ir_throw_allowed = 0;
  c_merge_inner(&in_l, &in_r, &in_p, in_ps, &res, in_g, in_g <= nl + nr ? cat_ikey(&in_l, &in_r, I_KEYS(&in_p)[in_ps], in_g) : 0, cat_child(&in_l, &in_r, in_g), nl, nr); CANARY();
}

#elif defined(OP_split_leaf)
/* split of a full leaf: old content == left ++ new node, both at least half full, chain relinked, returned key = left's last key */
void c_split_leaf(BT* t, Leaf* leaf, Leaf* after, key_t_* newkey, uint8_t** newleaf, unsigned g, key_t_ kg)
__CPROVER_requires(N_USE(leaf) == LS && N_LEVEL(leaf) == 0 && L_NEXT(leaf) == after && (after == 0 ? TAILL(t) == leaf : L_PREV(after) == leaf) && g < LS && kg == L_KEYS(leaf)[g])
__CPROVER_assigns(*t, *leaf, *newkey, *newleaf, ir_live_allocs)
__CPROVER_assigns(after != 0: __CPROVER_object_whole(after))
__CPROVER_ensures(*newleaf != 0 && N_LEVEL((Leaf*)*newleaf) == 0 && N_USE(leaf) + N_USE((Leaf*)*newleaf) == LS && N_USE(leaf) >= LMIN && N_USE((Leaf*)*newleaf) >= LMIN)
__CPROVER_ensures((g < N_USE(leaf) ? L_KEYS(leaf)[g] : L_KEYS((Leaf*)*newleaf)[g - N_USE(leaf)]) == kg)
__CPROVER_ensures(*newkey == L_KEYS(leaf)[N_USE(leaf) - 1])
__CPROVER_ensures(L_NEXT(leaf) == (Leaf*)*newleaf && L_PREV((Leaf*)*newleaf) == leaf && L_NEXT((Leaf*)*newleaf) == after && (after == 0 ? TAILL(t) == (Leaf*)*newleaf : L_PREV(after) == (Leaf*)*newleaf))
__CPROVER_ensures(ir_live_allocs == __CPROVER_old(ir_live_allocs) + 1 && ST_LEAVES(t) == __CPROVER_old(ST_LEAVES(t)) + 1)
{ w_bt_split_leaf(t, leaf, newkey, newleaf); }
void HARNESS(void)
{
  INPUT(BT, in_t); INPUT(Leaf, in_leaf); INPUT(Leaf, in_after); INPUT(_Bool, in_last); INPUT(unsigned, in_g); key_t_ nk; uint8_t* nl;
  Leaf* after = in_last ? 0 : &in_after;
  __CPROVER_assume(N_USE(&in_leaf) == LS && in_g < LS && ST_LEAVES(&in_t) < 1000);
  N_LEVEL(&in_leaf) = 0; L_NEXT(&in_leaf) = after; if (after) L_PREV(after) = &in_leaf; else TAILL(&in_t) = &in_leaf;
  ir_throw_allowed = 0; ir_live_allocs = 0;
  c_split_leaf(&in_t, &in_leaf, after, &nk, &nl, in_g, L_KEYS(&in_leaf)[in_g]); CANARY();
}

#elif defined(OP_split_inner)
/* split of a full inner node around the returned separator: keys == left.keys ++ [newkey] ++ new.keys, children == left.children ++ new.children;
 * neither half is more than one key short of half full */
void c_split_inner(BT* t, Inner* in, key_t_* newkey, uint8_t** newinner, uint32_t addslot, unsigned g, key_t_ kg, Node* cg)
__CPROVER_requires(N_USE(in) == IS && addslot <= IS && g <= IS && (g == IS || kg == I_KEYS(in)[g]) && cg == I_CH(in)[g])
__CPROVER_assigns(*t, *in, *newkey, *newinner, ir_live_allocs)
__CPROVER_ensures(*newinner != 0 && N_LEVEL((Inner*)*newinner) == N_LEVEL(in) && N_USE(in) + N_USE((Inner*)*newinner) + 1 == IS)
__CPROVER_ensures(g == IS || (g < N_USE(in) ? I_KEYS(in)[g] : (g == N_USE(in) ? *newkey : I_KEYS((Inner*)*newinner)[g - N_USE(in) - 1])) == kg)
__CPROVER_ensures((g <= N_USE(in) ? I_CH(in)[g] : I_CH((Inner*)*newinner)[g - N_USE(in) - 1]) == cg)
/* neither half is more than one key short of half full (the pending insertion, whose exact target the caller decides, fills it) */
__CPROVER_ensures(N_USE(in) + 1 >= IMIN && N_USE((Inner*)*newinner) + 1 >= IMIN && N_USE(in) >= 1 && N_USE((Inner*)*newinner) >= 1)
__CPROVER_ensures(ir_live_allocs == __CPROVER_old(ir_live_allocs) + 1 && ST_INNER(t) == __CPROVER_old(ST_INNER(t)) + 1)
{ w_bt_split_inner(t, in, newkey, newinner, addslot); }
void HARNESS(void)
{
  INPUT(BT, in_t); INPUT(Inner, in_in); INPUT(uint32_t, in_add); INPUT(unsigned, in_g); key_t_ nk; uint8_t* nn;
  __CPROVER_assume(N_USE(&in_in) == IS && in_add <= IS && in_g <= IS && ST_INNER(&in_t) < 1000 && N_LEVEL(&in_in) >= 1 && N_LEVEL(&in_in) < 10);
  ir_throw_allowed = 0; ir_live_allocs = 0;
  c_split_inner(&in_t, &in_in, &nk, &nn, in_add, in_g, in_g < IS ? I_KEYS(&in_in)[in_g] : 0, I_CH(&in_in)[in_g]); CANARY();
}
#else
#error "no OP_ selected"
#endif
