/* C13 -- DAryAddressableIntHeap<uint32_t, ARITY, Cmp> and DAryHeap<uint32_t, ARITY, Cmp>.
 * Every operation is enforced from an ARBITRARY well-formed heap (symbolic size <= NMAX, symbolic keys, symbolic
 * priority table for the table comparator), so the invariant -- heap order + handles_ reflect exactly the contents --
 * holds after every history within the capacity bound (induction over operations).
 * BOUNDED: heap size <= NMAX, key universe [0, HMAX).  The std::vector members are libstdc++'s real code. */
#include "verif.h"
#include "gen.h"
typedef struct S_class_tlx__DAryAddressableIntHeap AH;
typedef struct S_class_tlx__DAryHeap DH;
typedef struct S_class_std__vector Vec;
#define VB(v) ((v).f0.f0.f0.f0)
#define VE(v) ((v).f0.f0.f0.f1)
#define VC(v) ((v).f0.f0.f0.f2)
#define VSIZE(v) ((uint64_t)(VE(v) - VB(v)))
#ifndef NMAX
#define NMAX 6
#endif
#ifndef HMAX
#define HMAX 8
#endif
#define NOTP 0xFFFFFFFFu
#define PARENT(i) (((i) - 1) / ARITY)

/* -DFIX_N=<n> / -DFIX_HS=<hs> / -DFIX_M=<m>: one job per size.  The size is ASSIGNED (not assumed) so that the
 * verifier propagates it as a constant: with a symbolic size every std::vector reallocation path stays feasible and
 * the solver runs out of memory. */
#ifdef FIX_N
#define FIX_N_ in_n = FIX_N;
#else
#define FIX_N_
#endif
#ifdef FIX_HS
#define FIX_HS_ in_hs = FIX_HS;
#else
#define FIX_HS_
#endif
#define FIX_SIZES FIX_N_ FIX_HS_
#ifdef FIX_M
#define FIX_M_ in_m = FIX_M;
#else
#define FIX_M_
#endif

/* std::vector growth beyond the capacity provided by the harness is outside the bound of these jobs: the entry points of
 * libstdc++'s reallocation paths are replaced by stubs that FAIL when reached (so "not reached" is proved, not assumed) */
uint64_t stub_no_realloc_len(Vec* v, uint64_t n, uint8_t* what)
{ __CPROVER_assert(0, "std::vector does not reallocate within the capacity bound of this job"); __CPROVER_assume(0); return 0; }
uint32_t* stub_no_realloc_copy(Vec* v, uint64_t n, uint32_t* first, uint32_t* last)
{ __CPROVER_assert(0, "std::vector does not reallocate within the capacity bound of this job"); __CPROVER_assume(0); return 0; }

/* comparator of the configuration */
#if CMP_PRIO
static const uint32_t* g_prio;
#define CMP(a, b) (g_prio[a] < g_prio[b])
#define SET_CMP(h) do { (h).CMPFIELD.f0 = in_prio; g_prio = in_prio; } while (0)
#define DECL_PRIO INPUT_ARR(uint32_t, in_prio, HMAX);
#else
#define CMP(a, b) ((a) < (b))
#define SET_CMP(h) do { } while (0)
#define DECL_PRIO
#endif

/* ======================================================================================== addressable heap */
#if defined(ADDRESSABLE)
#define CMPFIELD f2
#define HEAP(h) ((h)->f0)
#define HAND(h) ((h)->f1)
static uint64_t ah_n(const AH* h) { return VSIZE(HEAP(h)); }
static uint64_t ah_hs(const AH* h) { return VSIZE(HAND(h)); }
/* storage shape: both vectors inside their capacity, sizes within the bounds */
static _Bool ah_shape(const AH* h)
{ return VB(HEAP(h)) != 0 && VB(HAND(h)) != 0 && ah_n(h) <= NMAX && ah_hs(h) <= HMAX && VE(HEAP(h)) <= VC(HEAP(h)) && VE(HAND(h)) <= VC(HAND(h)); }
/* handles_ reflect exactly the contents of heap_ */
static _Bool ah_handles_ok(const AH* h)
{
  uint64_t n = ah_n(h), hs = ah_hs(h);
  for (uint64_t i = 0; i < NMAX; i++) if (i < n) { uint32_t k = VB(HEAP(h))[i]; if (!(k < hs && VB(HAND(h))[k] == i)) return 0; }
  for (uint64_t k = 0; k < HMAX; k++) if (k < hs) { uint32_t p = VB(HAND(h))[k]; if (!(p == NOTP || (p < n && VB(HEAP(h))[p] == k))) return 0; }
  return 1;
}
/* heap order on every edge, except the edges incident to position `skip` (NMAX = none skipped) */
static _Bool ah_order_ok(const AH* h, uint64_t skip)
{
  uint64_t n = ah_n(h);
  for (uint64_t i = 1; i < NMAX; i++) if (i < n && i != skip && PARENT(i) != skip && CMP(VB(HEAP(h))[i], VB(HEAP(h))[PARENT(i)])) return 0;
  return 1;
}
static _Bool ah_wf(const AH* h) { return ah_shape(h) && ah_handles_ok(h) && ah_order_ok(h, NMAX); }
static _Bool ah_member(const AH* h, uint32_t g) { return g < ah_hs(h) && VB(HAND(h))[g] != NOTP; }
/* the top is not greater than any element */
static _Bool ah_top_min(const AH* h)
{ uint64_t n = ah_n(h); for (uint64_t i = 1; i < NMAX; i++) if (i < n && CMP(VB(HEAP(h))[i], VB(HEAP(h))[0])) return 0; return 1; }

/* arbitrary heap: heap_ in a block of NMAX keys, handles_ in a block of HMAX entries (no reallocation needed) */
#define MK_AH()                                                                                              \
  AH hp; DECL_PRIO INPUT_ARR(uint32_t, in_heap, NMAX); INPUT_ARR(uint32_t, in_hand, HMAX);                    \
  INPUT(uint64_t, in_n); INPUT(uint64_t, in_hs); FIX_SIZES __CPROVER_assume(in_n <= NMAX && in_hs <= HMAX);  \
  uint32_t* hb = malloc(NMAX * 4); uint32_t* db = malloc(HMAX * 4); __CPROVER_assume(hb != 0 && db != 0);     \
  for (unsigned i_ = 0; i_ < NMAX; i_++) hb[i_] = in_heap[i_];                                                \
  for (unsigned i_ = 0; i_ < HMAX; i_++) db[i_] = in_hand[i_];                                                \
  VB(HEAP(&hp)) = hb; VE(HEAP(&hp)) = hb + in_n; VC(HEAP(&hp)) = hb + NMAX;                                   \
  VB(HAND(&hp)) = db; VE(HAND(&hp)) = db + in_hs; VC(HAND(&hp)) = db + HMAX;                                  \
  SET_CMP(hp); ir_live_allocs = 2; ir_throw_allowed = 0;
#define AH_FRAME __CPROVER_assigns(*h, __CPROVER_object_whole(VB(HEAP(h))), __CPROVER_object_whole(VB(HAND(h))), ir_live_allocs)

#if defined(OP_push)
void c_push(AH* h, uint32_t k, uint32_t g, _Bool mg, uint64_t n0)
__CPROVER_requires(ah_wf(h) && ah_n(h) < NMAX && k < HMAX && !ah_member(h, k) && g < HMAX && mg == ah_member(h, g) && n0 == ah_n(h))
AH_FRAME
__CPROVER_ensures(ah_wf(h) && ah_n(h) == n0 + 1 && ah_top_min(h))
__CPROVER_ensures(ah_member(h, g) == (mg || g == k))
{ if (MOVE) w_ah_push_move(h, k); else w_ah_push(h, k); }
void HARNESS(void)
{
  MK_AH() INPUT(uint32_t, in_k); INPUT(uint32_t, in_g);
  __CPROVER_assume(ah_wf(&hp) && in_n < NMAX && in_k < HMAX && !ah_member(&hp, in_k) && in_g < HMAX);
  c_push(&hp, in_k, in_g, ah_member(&hp, in_g), in_n);
  CANARY();
}

#elif defined(OP_remove)
/* KIND 0: remove(k)  1: pop()  2: extract_top() */
uint32_t c_remove(AH* h, uint32_t k, uint32_t g, _Bool mg, uint64_t n0)
__CPROVER_requires(ah_wf(h) && ah_n(h) >= 1 && ah_member(h, k) && (KIND == 0 || k == VB(HEAP(h))[0]) && g < HMAX && mg == ah_member(h, g) && n0 == ah_n(h))
AH_FRAME
__CPROVER_ensures(ah_wf(h) && ah_n(h) == n0 - 1 && ah_top_min(h))
__CPROVER_ensures(ah_member(h, g) == (mg && g != k))
__CPROVER_ensures(KIND != 2 || __CPROVER_return_value == k)
{
#if KIND == 0
  w_ah_remove(h, k); return 0;
#elif KIND == 1
  w_ah_pop(h); return 0;
#else
  return w_ah_extract_top(h);
#endif
}
void HARNESS(void)
{
  MK_AH() INPUT(uint32_t, in_k); INPUT(uint32_t, in_g);
  __CPROVER_assume(ah_wf(&hp) && in_n >= 1 && in_g < HMAX);
  if (KIND != 0) in_k = hb[0];
  __CPROVER_assume(ah_member(&hp, in_k));
  c_remove(&hp, in_k, in_g, ah_member(&hp, in_g), in_n);
  CANARY();
}

#elif defined(OP_update)
/* update(k) after the priority of k changed: the heap is well formed except on the edges around k's position
 * (and the parent of that position is not greater than its children: it was a heap before the change) */
static _Bool around_ok(const AH* h, uint64_t p)
{
  uint64_t n = ah_n(h);
  if (p == 0) return 1;
  for (uint64_t c = 1; c < NMAX; c++) if (c < n && PARENT(c) == p && CMP(VB(HEAP(h))[c], VB(HEAP(h))[PARENT(p)])) return 0;
  return 1;
}
void c_update(AH* h, uint32_t k, uint32_t g, _Bool mg, uint64_t n0)
__CPROVER_requires(ah_shape(h) && ah_handles_ok(h) && ah_member(h, k) && ah_order_ok(h, VB(HAND(h))[k]) && around_ok(h, VB(HAND(h))[k]))
__CPROVER_requires(g < HMAX && mg == ah_member(h, g) && n0 == ah_n(h))
AH_FRAME
__CPROVER_ensures(ah_wf(h) && ah_n(h) == n0 && ah_top_min(h) && ah_member(h, g) == mg)
{ w_ah_update(h, k); }
void HARNESS(void)
{
  MK_AH() INPUT(uint32_t, in_k); INPUT(uint32_t, in_g);
  __CPROVER_assume(ah_shape(&hp) && ah_handles_ok(&hp) && in_g < HMAX && ah_member(&hp, in_k));
  __CPROVER_assume(ah_order_ok(&hp, db[in_k]) && around_ok(&hp, db[in_k]));
  c_update(&hp, in_k, in_g, ah_member(&hp, in_g), in_n);
  CANARY();
}

#elif defined(OP_update_absent)
/* update(k) for a key that is not in the heap: it is added */
void c_update_absent(AH* h, uint32_t k, uint32_t g, _Bool mg, uint64_t n0)
__CPROVER_requires(ah_wf(h) && ah_n(h) < NMAX && k < HMAX && !ah_member(h, k) && g < HMAX && mg == ah_member(h, g) && n0 == ah_n(h))
AH_FRAME
__CPROVER_ensures(ah_wf(h) && ah_n(h) == n0 + 1 && ah_member(h, g) == (mg || g == k))
{ w_ah_update(h, k); }
void HARNESS(void)
{
  MK_AH() INPUT(uint32_t, in_k); INPUT(uint32_t, in_g);
  __CPROVER_assume(ah_wf(&hp) && in_n < NMAX && in_k < HMAX && !ah_member(&hp, in_k) && in_g < HMAX);
  c_update_absent(&hp, in_k, in_g, ah_member(&hp, in_g), in_n);
  CANARY();
}

#elif defined(OP_update_all)
/* update_all() after arbitrary priority changes: any order, consistent handles -> a heap with the same keys */
void c_update_all(AH* h, uint32_t g, _Bool mg, uint64_t n0)
__CPROVER_requires(ah_shape(h) && ah_handles_ok(h) && g < HMAX && mg == ah_member(h, g) && n0 == ah_n(h))
AH_FRAME
__CPROVER_ensures(ah_wf(h) && ah_n(h) == n0 && ah_top_min(h) && ah_member(h, g) == mg)
{ w_ah_update_all(h); }
void HARNESS(void)
{
  MK_AH() INPUT(uint32_t, in_g);
  __CPROVER_assume(ah_shape(&hp) && ah_handles_ok(&hp) && in_g < HMAX);
  c_update_all(&hp, in_g, ah_member(&hp, in_g), in_n);
  CANARY();
}

#elif defined(OP_build)
/* build_heap(keys) on ANY heap (empty or not): afterwards the heap holds exactly the given keys.
 * KIND 0: iterator range  1: const std::vector&  2: std::vector&& */
static _Bool key_listed(const uint32_t* ks, uint64_t m, uint32_t g) { for (uint64_t i = 0; i < NMAX; i++) if (i < m && ks[i] == g) return 1; return 0; }
static _Bool keys_distinct(const uint32_t* ks, uint64_t m)
{ for (uint64_t i = 0; i < NMAX; i++) for (uint64_t j = 0; j < NMAX; j++) if (i < j && j < m && ks[i] == ks[j]) return 0;
  for (uint64_t i = 0; i < NMAX; i++) if (i < m && ks[i] >= HMAX) return 0; return 1; }
void c_build(AH* h, uint32_t* ks, uint64_t m, Vec* kv, uint32_t g, _Bool want)
__CPROVER_requires(ah_wf(h) && m <= NMAX && keys_distinct(ks, m) && g < HMAX && want == key_listed(ks, m, g))
__CPROVER_requires(KIND == 0 || (VB(*kv) == ks && VE(*kv) == ks + m && VC(*kv) == ks + NMAX))
__CPROVER_assigns(*h, *kv, __CPROVER_object_whole(VB(HEAP(h))), __CPROVER_object_whole(VB(HAND(h))), __CPROVER_object_whole(ks), ir_live_allocs)
__CPROVER_frees(VB(HEAP(h)), VB(HAND(h)))
__CPROVER_ensures(ah_handles_ok(h) && ah_order_ok(h, NMAX) && ah_n(h) == m && ah_top_min(h))
__CPROVER_ensures(ah_member(h, g) == want)
{
#if KIND == 0
  w_ah_build_range(h, ks, ks + m);
#elif KIND == 1
  w_ah_build_copy(h, kv);
#else
  w_ah_build_move(h, kv);
#endif
}
void HARNESS(void)
{
  MK_AH() INPUT_ARR(uint32_t, in_keys, NMAX); INPUT(uint64_t, in_m); INPUT(uint32_t, in_g); FIX_M_
  __CPROVER_assume(ah_wf(&hp) && in_m <= NMAX && in_g < HMAX);
#ifdef FROM_EMPTY
  __CPROVER_assume(in_n == 0);
  for (unsigned i = 0; i < HMAX; i++) __CPROVER_assume(i >= in_hs || db[i] == NOTP);
#endif
  uint32_t* kb = malloc(NMAX * 4); __CPROVER_assume(kb != 0);
  for (unsigned i = 0; i < NMAX; i++) kb[i] = in_keys[i];
  __CPROVER_assume(keys_distinct(kb, in_m));
  Vec kv; VB(kv) = kb; VE(kv) = kb + in_m; VC(kv) = kb + NMAX;
  ir_live_allocs = 3;
  c_build(&hp, kb, in_m, &kv, in_g, key_listed(kb, in_m, in_g));
  CANARY();
}

#elif defined(OP_clear)
void c_clear(AH* h, uint32_t g, uint64_t hs0)
__CPROVER_requires(ah_wf(h) && g < HMAX && hs0 == ah_hs(h))
AH_FRAME
__CPROVER_ensures(ah_wf(h) && ah_n(h) == 0 && !ah_member(h, g) && ah_hs(h) == hs0 && w_ah_empty(h) && w_ah_size(h) == 0)
{ w_ah_clear(h); }
void HARNESS(void) { MK_AH() INPUT(uint32_t, in_g); __CPROVER_assume(ah_wf(&hp) && in_g < HMAX); c_clear(&hp, in_g, in_hs); CANARY(); }

#elif defined(OP_observe)
/* contains / size / empty / top report the contents and change nothing; top is a minimum */
void c_observe(AH* h, uint32_t g)
__CPROVER_requires(ah_wf(h))
__CPROVER_assigns()
__CPROVER_ensures(w_ah_contains(h, g) == ah_member(h, g) && w_ah_size(h) == ah_n(h) && w_ah_empty(h) == (ah_n(h) == 0))
__CPROVER_ensures(ah_n(h) == 0 || (w_ah_top(h) == VB(HEAP(h))[0] && ah_top_min(h)))
{ w_ah_contains(h, g); }
void HARNESS(void) { MK_AH() INPUT(uint32_t, in_g); __CPROVER_assume(ah_wf(&hp)); c_observe(&hp, in_g); CANARY(); }

#elif defined(OP_sanity)
/* sanity_check() accepts every well-formed heap */
_Bool c_sanity(AH* h)
__CPROVER_requires(ah_wf(h))
__CPROVER_assigns(ir_live_allocs)
__CPROVER_ensures(__CPROVER_return_value == 1)
{ return w_ah_sanity_check(h); }
void HARNESS(void) { MK_AH() __CPROVER_assume(ah_wf(&hp)); c_sanity(&hp); CANARY(); }
#else
#error "no OP_ selected"
#endif

/* ======================================================================================== plain d-ary heap */
#else
#define CMPFIELD f1
#define HEAP(h) ((h)->f0)
static uint64_t dh_n(const DH* h) { return VSIZE(HEAP(h)); }
static _Bool dh_shape(const DH* h) { return VB(HEAP(h)) != 0 && dh_n(h) <= NMAX && VE(HEAP(h)) <= VC(HEAP(h)); }
static _Bool dh_keys_ok(const DH* h) { uint64_t n = dh_n(h); for (uint64_t i = 0; i < NMAX; i++) if (i < n && CMP_PRIO && VB(HEAP(h))[i] >= HMAX) return 0; return 1; }
static _Bool dh_order_ok(const DH* h)
{ uint64_t n = dh_n(h); for (uint64_t i = 1; i < NMAX; i++) if (i < n && CMP(VB(HEAP(h))[i], VB(HEAP(h))[PARENT(i)])) return 0; return 1; }
static _Bool dh_wf(const DH* h) { return dh_shape(h) && dh_keys_ok(h) && dh_order_ok(h); }
static uint64_t dh_count(const DH* h, uint32_t v) { uint64_t n = dh_n(h), c = 0; for (uint64_t i = 0; i < NMAX; i++) if (i < n && VB(HEAP(h))[i] == v) c++; return c; }
static _Bool dh_top_min(const DH* h)
{ uint64_t n = dh_n(h); for (uint64_t i = 1; i < NMAX; i++) if (i < n && CMP(VB(HEAP(h))[i], VB(HEAP(h))[0])) return 0; return 1; }
#define MK_DH()                                                                                              \
  DH hp; DECL_PRIO INPUT_ARR(uint32_t, in_heap, NMAX); INPUT(uint64_t, in_n); uint64_t in_hs; FIX_SIZES __CPROVER_assume(in_n <= NMAX);  \
  uint32_t* hb = malloc(NMAX * 4); __CPROVER_assume(hb != 0);                                                 \
  for (unsigned i_ = 0; i_ < NMAX; i_++) hb[i_] = in_heap[i_];                                                \
  VB(HEAP(&hp)) = hb; VE(HEAP(&hp)) = hb + in_n; VC(HEAP(&hp)) = hb + NMAX;                                   \
  SET_CMP(hp); ir_live_allocs = 1; ir_throw_allowed = 0;
#define DH_FRAME __CPROVER_assigns(*h, __CPROVER_object_whole(VB(HEAP(h))), ir_live_allocs)

#if defined(OP_push)
void c_push(DH* h, uint32_t k, uint32_t v, uint64_t cv, uint64_t n0)
__CPROVER_requires(dh_wf(h) && dh_n(h) < NMAX && (!CMP_PRIO || k < HMAX) && cv == dh_count(h, v) && n0 == dh_n(h))
DH_FRAME
__CPROVER_ensures(dh_wf(h) && dh_n(h) == n0 + 1 && dh_top_min(h) && dh_count(h, v) == cv + (v == k))
{ if (MOVE) w_dh_push_move(h, k); else w_dh_push(h, k); }
void HARNESS(void)
{
  MK_DH() INPUT(uint32_t, in_k); INPUT(uint32_t, in_v);
  __CPROVER_assume(dh_wf(&hp) && in_n < NMAX && (!CMP_PRIO || in_k < HMAX));
  c_push(&hp, in_k, in_v, dh_count(&hp, in_v), in_n); CANARY();
}
#elif defined(OP_pop)
/* KIND 1 pop 2 extract_top: removes one occurrence of the top element */
uint32_t c_pop(DH* h, uint32_t t, uint32_t v, uint64_t cv, uint64_t n0)
__CPROVER_requires(dh_wf(h) && dh_n(h) >= 1 && t == VB(HEAP(h))[0] && cv == dh_count(h, v) && n0 == dh_n(h))
DH_FRAME
__CPROVER_ensures(dh_wf(h) && dh_n(h) == n0 - 1 && dh_top_min(h) && dh_count(h, v) == cv - (v == t))
__CPROVER_ensures(KIND != 2 || __CPROVER_return_value == t)
{
#if KIND == 1
  w_dh_pop(h); return 0;
#else
  return w_dh_extract_top(h);
#endif
}
void HARNESS(void)
{
  MK_DH() INPUT(uint32_t, in_v);
  __CPROVER_assume(dh_wf(&hp) && in_n >= 1);
  c_pop(&hp, hb[0], in_v, dh_count(&hp, in_v), in_n); CANARY();
}
#elif defined(OP_update_all)
void c_update_all(DH* h, uint32_t v, uint64_t cv, uint64_t n0)
__CPROVER_requires(dh_shape(h) && dh_keys_ok(h) && cv == dh_count(h, v) && n0 == dh_n(h))
DH_FRAME
__CPROVER_ensures(dh_wf(h) && dh_n(h) == n0 && dh_top_min(h) && dh_count(h, v) == cv)
{ w_dh_update_all(h); }
void HARNESS(void) { MK_DH() INPUT(uint32_t, in_v); __CPROVER_assume(dh_shape(&hp) && dh_keys_ok(&hp)); c_update_all(&hp, in_v, dh_count(&hp, in_v), in_n); CANARY(); }
#elif defined(OP_build)
static uint64_t keys_count(const uint32_t* ks, uint64_t m, uint32_t v) { uint64_t c = 0; for (uint64_t i = 0; i < NMAX; i++) if (i < m && ks[i] == v) c++; return c; }
void c_build(DH* h, uint32_t* ks, uint64_t m, Vec* kv, uint32_t v, uint64_t cv)
__CPROVER_requires(dh_wf(h) && m <= NMAX && cv == keys_count(ks, m, v))
__CPROVER_requires(KIND == 0 || (VB(*kv) == ks && VE(*kv) == ks + m && VC(*kv) == ks + NMAX))
__CPROVER_assigns(*h, *kv, __CPROVER_object_whole(VB(HEAP(h))), __CPROVER_object_whole(ks), ir_live_allocs)
__CPROVER_frees(VB(HEAP(h)))
__CPROVER_ensures(dh_order_ok(h) && dh_n(h) == m && dh_top_min(h) && dh_count(h, v) == cv)
{
#if KIND == 0
  w_dh_build_range(h, ks, ks + m);
#elif KIND == 1
  w_dh_build_copy(h, kv);
#else
  w_dh_build_move(h, kv);
#endif
}
void HARNESS(void)
{
  MK_DH() INPUT_ARR(uint32_t, in_keys, NMAX); INPUT(uint64_t, in_m); INPUT(uint32_t, in_v); FIX_M_
  __CPROVER_assume(dh_wf(&hp) && in_m <= NMAX);
  uint32_t* kb = malloc(NMAX * 4); __CPROVER_assume(kb != 0);
  for (unsigned i = 0; i < NMAX; i++) { kb[i] = in_keys[i]; __CPROVER_assume(!CMP_PRIO || kb[i] < HMAX); }
  Vec kv; VB(kv) = kb; VE(kv) = kb + in_m; VC(kv) = kb + NMAX;
  ir_live_allocs = 2;
  c_build(&hp, kb, in_m, &kv, in_v, keys_count(kb, in_m, in_v)); CANARY();
}
#elif defined(OP_observe)
void c_observe(DH* h)
__CPROVER_requires(dh_wf(h))
__CPROVER_assigns()
__CPROVER_ensures(w_dh_size(h) == dh_n(h) && w_dh_empty(h) == (dh_n(h) == 0) && (dh_n(h) == 0 || (w_dh_top(h) == VB(HEAP(h))[0] && dh_top_min(h))))
{ w_dh_size(h); }
void HARNESS(void) { MK_DH() __CPROVER_assume(dh_wf(&hp)); c_observe(&hp); CANARY(); }
#elif defined(OP_clear)
void c_clear(DH* h)
__CPROVER_requires(dh_wf(h))
DH_FRAME
__CPROVER_ensures(dh_wf(h) && dh_n(h) == 0 && w_dh_empty(h))
{ w_dh_clear(h); }
void HARNESS(void) { MK_DH() __CPROVER_assume(dh_wf(&hp)); c_clear(&hp); CANARY(); }
#else
#error "no OP_ selected"
#endif
#endif
