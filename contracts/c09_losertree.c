/* C09 -- loser trees report a minimum-holding source; stable ones break ties by the smaller index.
 * One class per job (-DVARIANT: bit0 stable, bit1 pointer, bit2 unguarded).  BOUNDED CONFIGURATION: k <= 8 players
 * (ik symbolic in 1..8, k = next power of two); histories are unbounded: delete_min_insert is enforced from an
 * ARBITRARY tournament state satisfying the invariant lt_wf, and construction establishes lt_wf.
 *
 * Ghost state: cur[p] / exh[p] = current key of player p / "player p is exhausted" (p < ik).
 * lt_wf: replay the tournament bottom-up from the stored losers.  W[i] = winner of subtree i (a leaf index, or PAD
 * for the padding players that fill up to the power of two); at every inner node i the stored loser must be one of
 * the two child winners, the other one is W[i], and the stored loser does not beat W[i]; losers_[0] holds W[1];
 * every stored (sup, key) equals the ghost state of its source.  Leaf entries are not constrained (they are only
 * read during init). */
#include "verif.h"
#include "gen.h"
#define KMAX 8
#define PAD 0xFFFFFFFFu
#define STABLE ((VARIANT & 1) != 0)
#define POINTER ((VARIANT & 2) != 0)
#define UNGUARDED ((VARIANT & 4) != 0)
#if VARIANT == 0 || VARIANT == 1
typedef struct S_class_tlx__LoserTreeCopy LT;
typedef struct S_struct_tlx__LoserTreeCopyBase_unsigned_int___Loser Loser;
#define L_SRC(e) ((e).f1)
#define L_SUP(e) ((e).f0 != 0)
#define L_KEY(e) ((e).f2)
#elif VARIANT == 2 || VARIANT == 3
typedef struct S_class_tlx__LoserTreePointer LT;
typedef struct S_struct_tlx__LoserTreePointerBase_unsigned_int___Loser Loser;
#define L_SRC(e) ((e).f0)
#define L_SUP(e) ((e).f1 == 0)
#define L_KEY(e) (*(e).f1)
#elif VARIANT == 4 || VARIANT == 5
typedef struct S_class_tlx__LoserTreeCopyUnguarded LT;
typedef struct S_struct_tlx__LoserTreeCopyUnguardedBase_unsigned_int___Loser Loser;
#define L_SRC(e) ((e).f0)
#define L_SUP(e) 0
#define L_KEY(e) ((e).f1)
#else
typedef struct S_class_tlx__LoserTreePointerUnguarded LT;
typedef struct S_struct_tlx__LoserTreePointerUnguardedBase_unsigned_int___Loser Loser;
#define L_SRC(e) ((e).f0)
#define L_SUP(e) 0
#define L_KEY(e) (*(e).f1)
#endif
#define T_IK(t) ((t)->f0.f0)
#define T_K(t) ((t)->f0.f1)
#define T_N(t) ((t)->f0.f2.f0)
#define T_ARR(t) ((t)->f0.f2.f1)

/* order of two players x, l given the ghost state: "x is not beaten by l" (x may stay the winner against l).
 * exhausted = +infinity; unguarded trees: padding players hold the sentinel, real players are never exhausted. */
static _Bool is_sup(uint32_t x, const uint8_t* exh) { return x == PAD || exh[x]; }
static uint32_t key_of(uint32_t x, const uint32_t* cur, uint32_t sentinel) { return x == PAD ? sentinel : cur[x]; }
static _Bool not_beaten(uint32_t x, uint32_t l, const uint32_t* cur, const uint8_t* exh, uint32_t sentinel)
{
  if (!UNGUARDED) {
    if (is_sup(l, exh)) return STABLE ? (!is_sup(x, exh) || x <= l) : 1;
    if (is_sup(x, exh)) return 0;
  }
  uint32_t kx = key_of(x, cur, sentinel), kl = key_of(l, cur, sentinel);
  if (kx < kl) return 1;
  if (kl < kx) return 0;
  return STABLE ? x <= l : 1;
}
/* stored fields of an entry agree with the ghost state of its source */
static _Bool entry_ok(const Loser* e, uint32_t ik, const uint32_t* cur, const uint8_t* exh, uint32_t sentinel)
{
  uint32_t s = L_SRC(*e);
#if VARIANT == 0 || VARIANT == 1
  if (e->f0 > 1) return 0;     /* type invariant of the C++ bool member `sup`: a byte that is 0 or 1 */
#endif
  if (s == PAD) return UNGUARDED ? L_KEY(*e) == sentinel : L_SUP(*e);
  if (s >= ik) return 0;
  if (UNGUARDED) return L_KEY(*e) == cur[s];
  return L_SUP(*e) == exh[s] && (exh[s] || L_KEY(*e) == cur[s]);
}
/* winner of the whole tournament as determined by the stored losers, or 0xFFFFFFFE when the state is not well formed */
#define BAD 0xFFFFFFFEu
static uint32_t lt_winner(const LT* t, const uint32_t* cur, const uint8_t* exh, uint32_t sentinel)
{
  uint32_t ik = T_IK(t), k = T_K(t);
  uint32_t W[2 * KMAX];
  if (!(ik >= 1 && ik <= KMAX && (k == 1 || k == 2 || k == 4 || k == 8) && k >= ik && (k == 1 || k / 2 < ik) && T_N(t) == 2 * k && T_ARR(t) != 0)) return BAD;
  for (uint32_t p = 0; p < KMAX; p++) if (p < k) W[k + p] = p < ik ? p : PAD;
  for (uint32_t j = 1; j < KMAX; j++) {
    uint32_t i = KMAX - j;              /* i = 7 .. 1 */
    if (i < k) {
      const Loser* e = &T_ARR(t)[i];
      uint32_t a = W[2 * i], b = W[2 * i + 1], l = L_SRC(*e), w;
      if (!entry_ok(e, ik, cur, exh, sentinel)) return BAD;
      if (l == a) w = b; else if (l == b) w = a; else return BAD;
      if (!not_beaten(w, l, cur, exh, sentinel)) return BAD;
      W[i] = w;
    }
  }
  uint32_t top = k == 1 ? W[1] : W[1];
  if (!entry_ok(&T_ARR(t)[0], ik, cur, exh, sentinel) || L_SRC(T_ARR(t)[0]) != top) return BAD;
  return top;
}
static _Bool lt_wf(const LT* t, const uint32_t* cur, const uint8_t* exh, uint32_t sentinel) { return lt_winner(t, cur, exh, sentinel) != BAD; }
/* the property: the reported source holds a minimum among the live players (stable: the smallest index among minima) */
static _Bool is_min_source(uint32_t w, uint32_t ik, uint32_t g, const uint32_t* cur, const uint8_t* exh)
{
  if (g >= ik || exh[g]) return 1;                  /* only live players constrain the winner */
  if (w == PAD || w >= ik || exh[w]) return 0;      /* never an exhausted / padding player while a live one remains */
  if (cur[g] < cur[w]) return 0;
  return !STABLE || cur[w] < cur[g] || w <= g;
}
static _Bool ghost_ok(uint32_t ik, const uint32_t* cur, const uint8_t* exh, uint32_t sentinel)
{
  for (uint32_t p = 0; p < KMAX; p++) if (exh[p] > 1) return 0;     /* exh[] are truth values */
  if (!UNGUARDED) return 1;
  for (uint32_t p = 0; p < KMAX; p++) if (p < ik && (exh[p] || !(cur[p] < sentinel))) return 0;   /* documented: no player runs out */
  return 1;
}

/* -DFIX_IK=<1..8>: one job per number of players; assigned (not assumed) so that all sizes are constants */
#ifdef FIX_IK
#define FIX_IK_ in_ik = FIX_IK;
#else
#define FIX_IK_
#endif
/* arbitrary tree state in exactly-sized storage */
#define MK_TREE()                                                                                       \
  LT tr; INPUT(uint32_t, in_ik); FIX_IK_ INPUT_ARR(Loser, in_losers, 2 * KMAX);                          \
  INPUT_ARR(uint32_t, in_cur, KMAX); INPUT_ARR(uint8_t, in_exh, KMAX); INPUT(uint32_t, in_sentinel);       \
  INPUT_ARR(uint32_t, in_store, 2 * KMAX);                                                              \
  __CPROVER_assume(in_ik >= 1 && in_ik <= KMAX);                                                        \
  uint32_t k_ = in_ik <= 1 ? 1 : (in_ik <= 2 ? 2 : (in_ik <= 4 ? 4 : 8));                                \
  Loser* arr = malloc(2 * k_ * sizeof(Loser)); __CPROVER_assume(arr != 0);                              \
  for (unsigned i_ = 0; i_ < 2 * KMAX; i_++) if (i_ < 2 * k_) { arr[i_] = in_losers[i_]; PTR_FIX(arr[i_], i_) } \
  T_IK(&tr) = in_ik; T_K(&tr) = k_; T_N(&tr) = 2 * k_; T_ARR(&tr) = arr; ir_throw_allowed = 0;
#if POINTER
/* pointer trees: each entry points to a key cell owned by the caller (or is null = exhausted) */
#define PTR_FIX(e, i) (e).f1 = (UNGUARDED || in_store[i] != 0) ? &in_keycells[i] : 0;
#define DECL_CELLS INPUT_ARR(uint32_t, in_keycells, 2 * KMAX);
#else
#define PTR_FIX(e, i)
#define DECL_CELLS
#endif

#if defined(OP_min_source)
/* lemma: in every well-formed state the reported source is a minimum-holding live player */
uint32_t c_min_source(LT* t, uint32_t* cur, uint8_t* exh, uint32_t sentinel, uint32_t g)
__CPROVER_requires(lt_wf(t, cur, exh, sentinel) && ghost_ok(T_IK(t), cur, exh, sentinel) && g < KMAX)
__CPROVER_assigns()
__CPROVER_ensures(__CPROVER_return_value == lt_winner(t, cur, exh, sentinel) || (POINTER && !UNGUARDED && __CPROVER_return_value == PAD))
__CPROVER_ensures(is_min_source(__CPROVER_return_value, T_IK(t), g, cur, exh))
{ return w_lt_min_source(t); }
void HARNESS(void)
{
  DECL_CELLS MK_TREE() INPUT(uint32_t, in_g);
  __CPROVER_assume(in_g < KMAX && lt_wf(&tr, in_cur, in_exh, in_sentinel) && ghost_ok(in_ik, in_cur, in_exh, in_sentinel));
  c_min_source(&tr, in_cur, in_exh, in_sentinel, in_g);
  CANARY();
}

#elif defined(OP_delete_min_insert)
/* replace the winner's key (or mark the winner exhausted): the invariant holds for the updated ghost state */
void c_dmi(LT* t, uint32_t* keyp, _Bool sup, uint32_t* cur, uint8_t* exh, uint32_t* cur2, uint8_t* exh2, uint32_t sentinel, uint32_t w)
__CPROVER_requires(lt_wf(t, cur, exh, sentinel) && ghost_ok(T_IK(t), cur, exh, sentinel) && w == lt_winner(t, cur, exh, sentinel) && w < T_IK(t))
__CPROVER_requires(sup == (keyp == 0) && (UNGUARDED ? !sup && *keyp < sentinel : 1))
__CPROVER_requires(!exh[w] || UNGUARDED)   /* protocol: the caller feeds the next key of the reported, live winner */
__CPROVER_assigns(__CPROVER_object_whole(T_ARR(t)))
__CPROVER_ensures(lt_wf(t, cur2, exh2, sentinel))
__CPROVER_ensures(T_IK(t) == __CPROVER_old(T_IK(t)) && T_K(t) == __CPROVER_old(T_K(t)))
{ w_lt_delete_min_insert(t, keyp, sup); }
void HARNESS(void)
{
  DECL_CELLS MK_TREE() INPUT(uint32_t, in_newkey); INPUT(_Bool, in_sup);
  __CPROVER_assume(lt_wf(&tr, in_cur, in_exh, in_sentinel) && ghost_ok(in_ik, in_cur, in_exh, in_sentinel));
  uint32_t w = lt_winner(&tr, in_cur, in_exh, in_sentinel);
  __CPROVER_assume(w < in_ik && (UNGUARDED || !in_exh[w]));
  if (UNGUARDED) { in_sup = 0; __CPROVER_assume(in_newkey < in_sentinel); }
  uint32_t cur2[KMAX]; uint8_t exh2[KMAX];
  for (unsigned i = 0; i < KMAX; i++) { cur2[i] = in_cur[i]; exh2[i] = in_exh[i]; }
  cur2[w] = in_newkey; exh2[w] = in_sup;
  uint32_t newcell = in_newkey;
  c_dmi(&tr, in_sup ? 0 : &newcell, in_sup, in_cur, in_exh, cur2, exh2, in_sentinel, w);
  CANARY();
}

#elif defined(OP_build)
/* constructor + insert_start for every player + init() establish the invariant for the given keys */
void c_build(LT* t, uint32_t ik, uint32_t* cur, uint8_t* exh, uint32_t* sentinel)
__CPROVER_requires(ik >= 1 && ik <= KMAX && ghost_ok(ik, cur, exh, *sentinel))
__CPROVER_assigns(*t, ir_live_allocs)
__CPROVER_ensures(lt_wf(t, cur, exh, *sentinel) && T_IK(t) == ik)
{
  w_lt_ctor(t, ik, sentinel);
  for (uint32_t p = 0; p < KMAX; p++) if (p < ik) w_lt_insert_start(t, exh[p] ? 0 : &cur[p], p, exh[p]);
  w_lt_init(t);
}
void HARNESS(void)
{
  LT tr; INPUT(uint32_t, in_ik); FIX_IK_ INPUT_ARR(uint32_t, in_cur, KMAX); INPUT_ARR(uint8_t, in_exh, KMAX); INPUT(uint32_t, in_sentinel);
  __CPROVER_assume(in_ik >= 1 && in_ik <= KMAX && ghost_ok(in_ik, in_cur, in_exh, in_sentinel));
  ir_live_allocs = 0; ir_throw_allowed = 0;
  c_build(&tr, in_ik, in_cur, in_exh, &in_sentinel);
  CANARY();
}
#else
#error "no OP_ selected"
#endif
