/* C18 -- every StringView query answers like std::string_view.
 * Spec functions below are transcriptions of the definitions in [string.view] (C++17), over unsigned bytes
 * (char_traits<char>::lt compares as unsigned char).  BOUNDED: haystack length <= HN, needle length <= SN; contents
 * (all 256 byte values incl. NUL and >= 0x80) and every pos / n argument (full size_t, incl. npos) are symbolic.
 * Buffers have exactly the view's length, so any read outside a view is a bounds obligation. */
#include "verif.h"
#include "gen.h"
#ifndef HN
#define HN 4
#endif
#ifndef SN
#define SN 3
#endif
#define NPOS ((uint64_t)-1)
typedef const uint8_t* bytes;

static uint64_t min_(uint64_t a, uint64_t b) { return a < b ? a : b; }
static int sign_(uint32_t r) { return (int32_t)r < 0 ? -1 : ((int32_t)r > 0 ? 1 : 0); }
/* traits::compare on the common prefix, then the lengths */
static int spec_compare(bytes a, uint64_t an, bytes b, uint64_t bn)
{
  uint64_t r = min_(an, bn);
  for (uint64_t i = 0; i < HN; i++) if (i < r && a[i] != b[i]) return a[i] < b[i] ? -1 : 1;
  return an < bn ? -1 : (an > bn ? 1 : 0);
}
static _Bool match_at(bytes a, uint64_t an, bytes b, uint64_t bn, uint64_t x)
{
  if (x > an || bn > an - x) return 0;
  for (uint64_t i = 0; i < SN; i++) if (i < bn && a[x + i] != b[i]) return 0;
  return 1;
}
static _Bool member_(bytes b, uint64_t bn, uint8_t c) { for (uint64_t i = 0; i < SN; i++) if (i < bn && b[i] == c) return 1; return 0; }
/* find: lowest xpos >= pos with xpos + bn <= an and a[xpos .. xpos+bn) == b */
static uint64_t spec_find(bytes a, uint64_t an, bytes b, uint64_t bn, uint64_t pos)
{ for (uint64_t x = 0; x <= HN; x++) if (x >= pos && x <= an && match_at(a, an, b, bn, x)) return x; return NPOS; }
/* rfind: highest xpos <= pos with xpos + bn <= an and a match */
static uint64_t spec_rfind(bytes a, uint64_t an, bytes b, uint64_t bn, uint64_t pos)
{ for (uint64_t k = 0; k <= HN; k++) { uint64_t x = HN - k; if (x <= pos && x <= an && match_at(a, an, b, bn, x)) return x; } return NPOS; }
static uint64_t spec_first_of(bytes a, uint64_t an, bytes b, uint64_t bn, uint64_t pos, _Bool want)
{ for (uint64_t x = 0; x < HN; x++) if (x >= pos && x < an && member_(b, bn, a[x]) == want) return x; return NPOS; }
static uint64_t spec_last_of(bytes a, uint64_t an, bytes b, uint64_t bn, uint64_t pos, _Bool want)
{ for (uint64_t k = 0; k < HN; k++) { uint64_t x = HN - 1 - k; if (x <= pos && x < an && member_(b, bn, a[x]) == want) return x; } return NPOS; }

/* ---- harness pieces: haystack a (exactly in_an bytes), needle b (exactly in_bn bytes, + NUL when ZTERM) ---- */
#define MK_VIEW(nm, MAXN)                                                                    \
  INPUT_ARR(uint8_t, in_##nm, MAXN + 1); INPUT(uint64_t, in_##nm##n);                         \
  __CPROVER_assume(in_##nm##n <= MAXN);                                                      \
  uint8_t* nm = malloc(BUFSZ(in_##nm##n, MAXN) + ZT_##nm); __CPROVER_assume(nm != 0);                      \
  for (uint64_t i_ = 0; i_ < MAXN; i_++) if (i_ < in_##nm##n) nm[i_] = in_##nm[i_];           \
  if (ZT_##nm) { nm[in_##nm##n] = 0; for (uint64_t i_ = 0; i_ < MAXN; i_++) if (i_ < in_##nm##n) __CPROVER_assume(nm[i_] != 0); }
/* FIXEDBUF: buffers of the maximal size instead of exactly the view's size (cheaper for the solver; a read past the
 * view's end is then caught only if it can change the result, because the bytes there are arbitrary) */
#ifdef FIXEDBUF
#define BUFSZ(n, MAXN) (MAXN)
#else
#define BUFSZ(n, MAXN) (n)
#endif
#define ZT_a 0
#if defined(ZTERM)
#define ZT_b 1
#else
#define ZT_b 0
#endif
#define VIEWS_OK (an <= HN && bn <= SN)

/* ==================================================================== compare and relational operators */
#if defined(OP_compare)
/* KIND 0: compare(x) 1: compare(const char*) ; relational: 2 == 3 != 4 < 5 > 6 <= 7 >= */
uint32_t c_cmp(uint8_t* a, uint64_t an, uint8_t* b, uint64_t bn)
__CPROVER_requires(an <= HN && bn <= HN)
__CPROVER_assigns()
__CPROVER_ensures(KIND == 0 || KIND == 1 ? sign_(__CPROVER_return_value) == spec_compare(a, an, b, bn) :
                  KIND == 2 ? (__CPROVER_return_value != 0) == (spec_compare(a, an, b, bn) == 0) :
                  KIND == 3 ? (__CPROVER_return_value != 0) == (spec_compare(a, an, b, bn) != 0) :
                  KIND == 4 ? (__CPROVER_return_value != 0) == (spec_compare(a, an, b, bn) < 0) :
                  KIND == 5 ? (__CPROVER_return_value != 0) == (spec_compare(a, an, b, bn) > 0) :
                  KIND == 6 ? (__CPROVER_return_value != 0) == (spec_compare(a, an, b, bn) <= 0) :
                              (__CPROVER_return_value != 0) == (spec_compare(a, an, b, bn) >= 0))
{
#if KIND == 0
  return w_sv_compare(a, an, b, bn);
#elif KIND == 1
  return w_sv_compare_cstr(a, an, b);
#elif KIND == 2
  return w_sv_eq(a, an, b, bn);
#elif KIND == 3
  return w_sv_ne(a, an, b, bn);
#elif KIND == 4
  return w_sv_lt(a, an, b, bn);
#elif KIND == 5
  return w_sv_gt(a, an, b, bn);
#elif KIND == 6
  return w_sv_le(a, an, b, bn);
#else
  return w_sv_ge(a, an, b, bn);
#endif
}
#undef SN
#define SN HN          /* both sides are full views here */
void HARNESS(void) { MK_VIEW(a, HN) MK_VIEW(b, HN) ir_throw_allowed = 0; c_cmp(a, in_an, b, in_bn); CANARY(); }

#elif defined(OP_compare_mix)
/* the free relational operators between a StringView and a std::string (KIND 0) / a const char* (KIND 1), both argument
 * orders (DIR), MIXOP 0 == 1 != 2 < 3 > 4 <= 5 >= : same truth value as comparing the two byte ranges as views */
#if DIR == 0
#define MIXC(a, an, b, bn) spec_compare(a, an, b, bn)
#else
#define MIXC(a, an, b, bn) spec_compare(b, bn, a, an)
#endif
_Bool c_cmp_mix(uint8_t* a, uint64_t an, uint8_t* b, uint64_t bn)
__CPROVER_requires(an <= HN && bn <= HN)
__CPROVER_assigns(ir_live_allocs)
__CPROVER_ensures(__CPROVER_return_value == (MIXOP == 0 ? MIXC(a, an, b, bn) == 0 : MIXOP == 1 ? MIXC(a, an, b, bn) != 0 : MIXOP == 2 ? MIXC(a, an, b, bn) < 0 :
                                             MIXOP == 3 ? MIXC(a, an, b, bn) > 0 : MIXOP == 4 ? MIXC(a, an, b, bn) <= 0 : MIXC(a, an, b, bn) >= 0))
__CPROVER_ensures(ir_live_allocs == __CPROVER_old(ir_live_allocs))
{
#if KIND == 0
  return w_sv_mix_str(MIXOP, DIR, a, an, b, bn);
#else
  return w_sv_mix_cstr(MIXOP, DIR, a, an, b);
#endif
}
#undef SN
#define SN HN
void HARNESS(void) { MK_VIEW(a, HN) MK_VIEW(b, HN) ir_throw_allowed = 0; ir_live_allocs = 2; c_cmp_mix(a, in_an, b, in_bn); CANARY(); }

#elif defined(OP_compare_sub)
/* compare(pos1, n1, x [, pos2, n2]) = substr(pos1, n1).compare(x.substr(pos2, n2)); out_of_range iff pos1 > size (pos2 > x.size)
 * KIND 0: (pos1,n1,x)  1: (pos1,n1,x,pos2,n2)  2: (pos1,n1,const char*)  3: (pos1,n1,const char*,n2) */
uint32_t c_cmp_sub(uint8_t* a, uint64_t an, uint64_t pos1, uint64_t n1, uint8_t* b, uint64_t bn, uint64_t pos2, uint64_t n2)
__CPROVER_requires(an <= HN && bn <= HN)
__CPROVER_assigns()
__CPROVER_ensures(pos1 <= an && (KIND != 1 || pos2 <= bn))
__CPROVER_ensures(sign_(__CPROVER_return_value) ==
                  spec_compare(a + pos1, min_(n1, an - pos1), KIND == 1 ? b + pos2 : b, KIND == 1 ? min_(n2, bn - pos2) : (KIND == 3 ? n2 : bn)))
{
#if KIND == 0
  return w_sv_compare_pn(a, an, pos1, n1, b, bn);
#elif KIND == 1
  return w_sv_compare_pnpn(a, an, pos1, n1, b, bn, pos2, n2);
#elif KIND == 2
  return w_sv_compare_pn_cstr(a, an, pos1, n1, b);
#else
  return w_sv_compare_pn_cstrn(a, an, pos1, n1, b, n2);
#endif
}
#undef SN
#define SN HN
void HARNESS(void)
{
  MK_VIEW(a, HN) MK_VIEW(b, HN)
  INPUT(uint64_t, in_pos1); INPUT(uint64_t, in_n1); INPUT(uint64_t, in_pos2); INPUT(uint64_t, in_n2);
  if (KIND == 3) __CPROVER_assume(in_n2 <= in_bn);   /* (s, n2) must be a valid range */
  ir_throw_allowed = (in_pos1 > in_an || (KIND == 1 && in_pos2 > in_bn)) ? EXC_OUT_OF_RANGE : EXC_NONE;
  c_cmp_sub(a, in_an, in_pos1, in_n1, b, in_bn, in_pos2, in_n2);
  CANARY();
}

/* ==================================================================== starts_with / ends_with */
#elif defined(OP_affix)
/* KIND 0 starts_with(view) 1 starts_with(char) 2 ends_with(view) 3 ends_with(char) */
_Bool c_affix(uint8_t* a, uint64_t an, uint8_t* b, uint64_t bn)
__CPROVER_requires(VIEWS_OK && (KIND == 0 || KIND == 2 || bn == 1))
__CPROVER_assigns()
__CPROVER_ensures(__CPROVER_return_value == (KIND <= 1 ? (bn <= an && match_at(a, an, b, bn, 0)) : (bn <= an && match_at(a, an, b, bn, an - bn))))
{
#if KIND == 0
  return w_sv_starts_with(a, an, b, bn);
#elif KIND == 1
  return w_sv_starts_with_c(a, an, b[0]);
#elif KIND == 2
  return w_sv_ends_with(a, an, b, bn);
#else
  return w_sv_ends_with_c(a, an, b[0]);
#endif
}
void HARNESS(void)
{
  MK_VIEW(a, HN) MK_VIEW(b, SN)
  if (KIND == 1 || KIND == 3) __CPROVER_assume(in_bn == 1);
  ir_throw_allowed = 0; c_affix(a, in_an, b, in_bn); CANARY();
}

/* ==================================================================== the six search families */
#elif defined(OP_search)
/* FAM 0 find 1 rfind 2 find_first_of 3 find_last_of 4 find_first_not_of 5 find_last_not_of
 * FORM 0 (view, pos) 1 (char, pos) 2 (const char*, pos, n) 3 (NUL-terminated const char*, pos) */
#define CALL_(name) (FORM == 0 ? w_sv_##name(a, an, b, bn, pos) : FORM == 1 ? w_sv_##name##_c(a, an, b[0], pos) : \
                     FORM == 2 ? w_sv_##name##_pn(a, an, b, pos, bn) : w_sv_##name##_z(a, an, b, pos))
uint64_t c_search(uint8_t* a, uint64_t an, uint8_t* b, uint64_t bn, uint64_t pos)
__CPROVER_requires(VIEWS_OK && (FORM != 1 || bn == 1))
__CPROVER_assigns()
__CPROVER_ensures(__CPROVER_return_value ==
                  (FAM == 0 ? spec_find(a, an, b, bn, pos) : FAM == 1 ? spec_rfind(a, an, b, bn, pos) :
                   FAM == 2 ? spec_first_of(a, an, b, bn, pos, 1) : FAM == 3 ? spec_last_of(a, an, b, bn, pos, 1) :
                   FAM == 4 ? spec_first_of(a, an, b, bn, pos, 0) : spec_last_of(a, an, b, bn, pos, 0)))
{
#if FAM == 0
  return CALL_(find);
#elif FAM == 1
  return CALL_(rfind);
#elif FAM == 2
  return CALL_(find_first_of);
#elif FAM == 3
  return CALL_(find_last_of);
#elif FAM == 4
  return CALL_(find_first_not_of);
#else
  return CALL_(find_last_not_of);
#endif
}
void HARNESS(void)
{
  MK_VIEW(a, HN) MK_VIEW(b, SN)
  INPUT(uint64_t, in_pos);
  if (FORM == 1) __CPROVER_assume(in_bn == 1);
  ir_throw_allowed = 0;
  c_search(a, in_an, b, in_bn, in_pos);
  CANARY();
}

/* ==================================================================== substr / copy / at / element access / prefix, suffix */
#elif defined(OP_substr)
void c_substr(uint8_t* a, uint64_t an, uint64_t pos, uint64_t n, uint8_t** rp, uint64_t* rn)
__CPROVER_requires(an <= HN)
__CPROVER_assigns(*rp, *rn)
__CPROVER_ensures(pos <= an && *rp == a + pos && *rn == min_(n, an - pos))
{ w_sv_substr(a, an, pos, n, rp, rn); }
void HARNESS(void)
{
  MK_VIEW(a, HN) INPUT(uint64_t, in_pos); INPUT(uint64_t, in_n); uint8_t* rp; uint64_t rn;
  ir_throw_allowed = in_pos > in_an ? EXC_OUT_OF_RANGE : EXC_NONE;
  c_substr(a, in_an, in_pos, in_n, &rp, &rn); CANARY();
}

#elif defined(OP_copy)
/* copy(dst, n, pos): out_of_range iff pos > size; copies rlen = min(n, size - pos) bytes FROM data() + pos; returns rlen;
 * nothing beyond dst[0 .. rlen) is written (dst has exactly rlen... the destination buffer has HN bytes, g checks one) */
uint64_t c_copy(uint8_t* a, uint64_t an, uint8_t* dst, uint64_t n, uint64_t pos, uint64_t g, uint8_t dg)
__CPROVER_requires(an <= HN && g < HN && dg == dst[g])
__CPROVER_assigns(__CPROVER_object_whole(dst))
__CPROVER_ensures(pos <= an && __CPROVER_return_value == min_(n, an - pos))
__CPROVER_ensures(g < __CPROVER_return_value ? dst[g] == a[pos + g] : dst[g] == dg)
{ return w_sv_copy(a, an, dst, n, pos); }
void HARNESS(void)
{
  MK_VIEW(a, HN) INPUT_ARR(uint8_t, in_dst, HN); INPUT(uint64_t, in_pos); INPUT(uint64_t, in_n); INPUT(uint64_t, in_g);
  __CPROVER_assume(in_g < HN);
  ir_throw_allowed = in_pos > in_an ? EXC_OUT_OF_RANGE : EXC_NONE;
  c_copy(a, in_an, in_dst, in_n, in_pos, in_g, in_dst[in_g]); CANARY();
}

#elif defined(OP_at)
uint8_t c_at(uint8_t* a, uint64_t an, uint64_t pos)
__CPROVER_requires(an <= HN)
__CPROVER_assigns()
__CPROVER_ensures(pos < an && __CPROVER_return_value == a[pos])
{ return w_sv_at(a, an, pos); }
void HARNESS(void)
{
  MK_VIEW(a, HN) INPUT(uint64_t, in_pos);
  ir_throw_allowed = in_pos >= in_an ? EXC_OUT_OF_RANGE : EXC_NONE;
  c_at(a, in_an, in_pos); CANARY();
}

#elif defined(OP_access)
/* operator[], front, back, size/length, empty on their defined domain (results collected by the enforced wrapper) */
struct access_res { uint8_t idx, front, back; uint64_t size; _Bool empty, empty0; };
void c_access(uint8_t* a, uint64_t an, uint64_t pos, struct access_res* r)
__CPROVER_requires(an <= HN && an >= 1 && pos < an)
__CPROVER_assigns(*r)
__CPROVER_ensures(r->idx == a[pos] && r->front == a[0] && r->back == a[an - 1])
__CPROVER_ensures(r->size == an && !r->empty && r->empty0)
{
  r->idx = w_sv_index(a, an, pos); r->front = w_sv_front(a, an); r->back = w_sv_back(a, an);
  r->size = w_sv_size(a, an); r->empty = w_sv_empty(a, an); r->empty0 = w_sv_empty(a, 0);
}
void HARNESS(void)
{
  MK_VIEW(a, HN) INPUT(uint64_t, in_pos); struct access_res r;
  __CPROVER_assume(in_an >= 1 && in_pos < in_an);
  ir_throw_allowed = 0; c_access(a, in_an, in_pos, &r); CANARY();
}

#elif defined(OP_remove)
/* remove_prefix(n) / remove_suffix(n) for n <= size (std::string_view's precondition) */
void c_remove(uint8_t* a, uint64_t an, uint64_t n, uint8_t** rp, uint64_t* rn, _Bool suffix)
__CPROVER_requires(an <= HN && n <= an)
__CPROVER_assigns(*rp, *rn)
__CPROVER_ensures(*rn == an - n && *rp == (suffix ? a : a + n))
{ if (suffix) w_sv_remove_suffix(a, an, n, rp, rn); else w_sv_remove_prefix(a, an, n, rp, rn); }
void HARNESS(void)
{
  MK_VIEW(a, HN) INPUT(uint64_t, in_n); INPUT(_Bool, in_suffix); uint8_t* rp; uint64_t rn;
  __CPROVER_assume(in_n <= in_an);
  ir_throw_allowed = 0; c_remove(a, in_an, in_n, &rp, &rn, in_suffix); CANARY();
}

#elif defined(OP_from_cstr)
/* StringView(const char*): length = strlen */
uint64_t c_from_cstr(uint8_t* z, uint64_t zn, uint8_t** rp)
__CPROVER_requires(zn <= SN)
__CPROVER_assigns(*rp)
__CPROVER_ensures(__CPROVER_return_value == zn && *rp == z)
{ return w_sv_from_cstr(z, rp); }
#undef ZT_b
#define ZT_b 1
void HARNESS(void) { MK_VIEW(b, SN) uint8_t* rp; ir_throw_allowed = 0; c_from_cstr(b, in_bn, &rp); CANARY(); }

#elif defined(OP_to_string)
/* conversion to std::string (to_string() and explicit operator std::string): same length, same bytes */
uint64_t c_to_string(uint8_t* a, uint64_t an, uint8_t* out, uint64_t g, _Bool op)
__CPROVER_requires(an <= HN && g < HN)
__CPROVER_assigns(__CPROVER_object_whole(out), ir_live_allocs)
__CPROVER_ensures(__CPROVER_return_value == an && (g >= an || out[g] == a[g]))
__CPROVER_ensures(ir_live_allocs == __CPROVER_old(ir_live_allocs))
{ return op ? w_sv_to_string_op(a, an, out) : w_sv_to_string(a, an, out); }
void HARNESS(void)
{
  MK_VIEW(a, HN) INPUT(uint64_t, in_g); INPUT(_Bool, in_op); uint8_t out[HN];
  __CPROVER_assume(in_g < HN);
  ir_throw_allowed = 0; ir_live_allocs = 0;
  c_to_string(a, in_an, out, in_g, in_op); CANARY();
}
#else
#error "no OP_ selected"
#endif
