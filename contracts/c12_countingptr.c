/* C12 -- CountingPtr: the reference count of each object equals the number of handles pointing to it; the object is
 * destroyed exactly once, when that number drops to zero, and never while a handle remains.
 *
 * State space of each proof: two distinct objects A, B (heap blocks), up to three handles taking part in the
 * operation (each null / ->A / ->B, any aliasing), and for each object a SYMBOLIC number ext of further handles that
 * exist elsewhere and do not take part.  Invariant I:  refcount(o) == ext(o) + #{participating handles -> o}.
 * Every operation is enforced from an arbitrary I-state and must re-establish I for the new handle values, with the
 * ledger saying exactly which object was destroyed (the destructor of Obj calls vf_obj_dtor).  As every operation
 * preserves I from every I-state, I holds after every history (stated induction step).  Sequential semantics only:
 * std::atomic operations are executed one at a time (the concurrent half of C12 is not decided). */
#include "verif.h"
#include "gen.h"
typedef struct S_struct_Obj Obj;
typedef struct S_class_tlx__CountingPtr P;        /* CountingPtr<Obj> */
typedef struct S_class_tlx__CountingPtr_0 PD;     /* CountingPtr<Derived> */
#define RC(o) ((o)->f0.f0.f0.f0)
#define PAYLOAD(o) ((o)->f1)
#define H(p) ((p)->f0)

Obj* g_A; Obj* g_B; uint64_t g_delA, g_delB, g_del_other;
void vf_obj_dtor(uint8_t* o)
{ if ((Obj*)o == g_A) g_delA++; else if ((Obj*)o == g_B) g_delB++; else g_del_other++; }

static _Bool hval_ok(Obj* h, Obj* A, Obj* B) { return h == 0 || h == A || h == B; }
static uint64_t hcount(Obj* o, uint64_t ext, Obj* h1, Obj* h2, Obj* h3) { return ext + (h1 == o) + (h2 == o) + (h3 == o); }
/* post-state of one object: alive with the right count, or destroyed exactly once exactly when its count dropped to 0 */
static _Bool obj_ok(Obj* o, uint64_t newc, uint64_t oldc, uint64_t del)
{
  if (newc > 0) return del == 0 && RC(o) == newc;
  return del == (oldc > 0 ? 1 : 0);
}
/* pre-state */
static _Bool pre_ok(Obj* A, Obj* B, uint64_t extA, uint64_t extB, Obj* h1, Obj* h2, Obj* h3)
{
  return A != 0 && B != 0 && A != B && g_A == A && g_B == B && g_delA == 0 && g_delB == 0 && g_del_other == 0 &&
         extA < (1ull << 62) && extB < (1ull << 62) && hval_ok(h1, A, B) && hval_ok(h2, A, B) && hval_ok(h3, A, B) &&
         RC(A) == hcount(A, extA, h1, h2, h3) && RC(B) == hcount(B, extB, h1, h2, h3);
}
#define POST(n1, n2, n3, o1, o2, o3)                                                                       \
  (obj_ok(A, hcount(A, extA, n1, n2, n3), hcount(A, extA, o1, o2, o3), g_delA) &&                                \
   obj_ok(B, hcount(B, extB, n1, n2, n3), hcount(B, extB, o1, o2, o3), g_delB) && g_del_other == 0)
#define FRAME __CPROVER_assigns(g_delA, g_delB, g_del_other, ir_live_allocs, __CPROVER_object_whole(A), __CPROVER_object_whole(B)) __CPROVER_frees(A, B)

/* harness pieces */
#define MK_OBJS()                                                                                          \
  Obj* A = malloc(sizeof(Obj)); Obj* B = malloc(sizeof(Obj)); __CPROVER_assume(A != 0 && B != 0);          \
  INPUT(uint64_t, in_extA); INPUT(uint64_t, in_extB); INPUT(uint32_t, in_payA); INPUT(uint32_t, in_payB);  \
  __CPROVER_assume(in_extA < (1ull << 62) && in_extB < (1ull << 62));                                      \
  PAYLOAD(A) = in_payA; PAYLOAD(B) = in_payB;                                                              \
  g_A = A; g_B = B; g_delA = 0; g_delB = 0; g_del_other = 0; ir_live_allocs = 2;
#define SEL(s) ((s) == 0 ? (Obj*)0 : ((s) == 1 ? A : B))
#define MK_HANDLE(h, sel) P h; INPUT(uint8_t, sel); __CPROVER_assume(sel <= 2); H(&h) = SEL(sel);
#define SET_COUNTS(h1, h2, h3) do { RC(A) = hcount(A, in_extA, h1, h2, h3); RC(B) = hcount(B, in_extB, h1, h2, h3); } while (0)

/* ======================================================================================== ReferenceCounter */
#if defined(OP_refcounter)
void c_inc(Obj* o)
__CPROVER_requires(RC(o) < (1ull << 63))
__CPROVER_assigns(RC(o))
__CPROVER_ensures(RC(o) == __CPROVER_old(RC(o)) + 1 && w_rc_count(o) == RC(o) && w_rc_unique(o) == (RC(o) == 1))
{ w_rc_inc(o); }
_Bool c_dec(Obj* o)
__CPROVER_requires(RC(o) > 0)
__CPROVER_assigns(RC(o))
__CPROVER_ensures(RC(o) == __CPROVER_old(RC(o)) - 1 && __CPROVER_return_value == (RC(o) == 0))
{ return w_rc_dec(o); }
void HARNESS(void)
{
  INPUT(Obj, in_o); INPUT(_Bool, in_which);
  if (in_which) { __CPROVER_assume(RC(&in_o) < (1ull << 63)); c_inc(&in_o); }
  else { __CPROVER_assume(RC(&in_o) > 0); c_dec(&in_o); }
  CANARY();
}

/* ======================================================================================== constructors: new handle n from (b) */
#elif defined(OP_ctor)
/* KIND: 0 default, 1 nullptr, 2 from raw pointer (src = the raw pointer), 3 copy, 4 converting copy, 5 move,
 *       6 converting move.  b = source handle (kinds 3..6), c = a third, uninvolved handle. */
void c_ctor(P* n, P* b, P* c, Obj* raw, Obj* A, Obj* B, uint64_t extA, uint64_t extB, Obj* ob)
__CPROVER_requires(n != b && n != c && b != c && ob == H(b) && hval_ok(raw, A, B) && pre_ok(A, B, extA, extB, H(b), H(c), 0))
__CPROVER_assigns(*n, *b, g_delA, g_delB, g_del_other, ir_live_allocs, __CPROVER_object_whole(A), __CPROVER_object_whole(B))
__CPROVER_ensures(H(n) == (KIND <= 1 ? (Obj*)0 : (KIND == 2 ? raw : ob)))
__CPROVER_ensures(H(b) == (KIND >= 5 ? (Obj*)0 : ob) && H(c) == __CPROVER_old(H(c)))
__CPROVER_ensures(POST(H(n), H(b), H(c), ob, __CPROVER_old(H(c)), (Obj*)0))
__CPROVER_ensures(g_delA == 0 && g_delB == 0)
{
#if KIND == 0
  w_cp_ctor_default(n);
#elif KIND == 1
  w_cp_ctor_nullptr(n);
#elif KIND == 2
  w_cp_ctor_ptr(n, raw);
#elif KIND == 3
  w_cp_copy_ctor(n, b);
#elif KIND == 4
  w_cp_copy_ctor_conv(n, (PD*)b);
#elif KIND == 5
  w_cp_move_ctor(n, b);
#else
  w_cp_move_ctor_conv(n, (PD*)b);
#endif
}
void HARNESS(void)
{
  MK_OBJS() MK_HANDLE(b, in_sb) MK_HANDLE(c, in_sc)
  INPUT(uint8_t, in_sraw); __CPROVER_assume(in_sraw <= 2);
  P n;
  SET_COUNTS(H(&b), H(&c), 0);
  c_ctor(&n, &b, &c, SEL(in_sraw), A, B, in_extA, in_extB, H(&b));
  CANARY();
}

/* ======================================================================================== assignments and swap on (a, b) */
#elif defined(OP_assign)
/* KIND: 0 copy, 1 converting copy, 2 move, 3 converting move, 4 swap (member), 5 swap (free function) */
#if KIND <= 1
#define NEW_A ob
#define NEW_B ob
#elif KIND <= 3
#define NEW_A (oa == ob ? oa : ob)
#define NEW_B (oa == ob ? ob : (Obj*)0)
#else
#define NEW_A ob
#define NEW_B oa
#endif
void c_assign(P* a, P* b, P* c, Obj* A, Obj* B, uint64_t extA, uint64_t extB, Obj* oa, Obj* ob)
__CPROVER_requires(a != b && a != c && b != c && oa == H(a) && ob == H(b) && pre_ok(A, B, extA, extB, H(a), H(b), H(c)))
__CPROVER_assigns(*a, *b, g_delA, g_delB, g_del_other, ir_live_allocs, __CPROVER_object_whole(A), __CPROVER_object_whole(B))
__CPROVER_frees(A, B)
__CPROVER_ensures(H(a) == NEW_A && H(b) == NEW_B && H(c) == __CPROVER_old(H(c)))
__CPROVER_ensures(POST(H(a), H(b), H(c), oa, ob, __CPROVER_old(H(c))))
{
#if KIND == 0
  w_cp_copy_assign(a, b);
#elif KIND == 1
  w_cp_copy_assign_conv(a, (PD*)b);
#elif KIND == 2
  w_cp_move_assign(a, b);
#elif KIND == 3
  w_cp_move_assign_conv(a, (PD*)b);
#elif KIND == 4
  w_cp_swap(a, b);
#else
  w_cp_swap_free(a, b);
#endif
}
void HARNESS(void)
{
  MK_OBJS() MK_HANDLE(a, in_sa) MK_HANDLE(b, in_sb) MK_HANDLE(c, in_sc)
  SET_COUNTS(H(&a), H(&b), H(&c));
  c_assign(&a, &b, &c, A, B, in_extA, in_extB, H(&a), H(&b));
  CANARY();
}

#elif defined(OP_self_assign)
/* a = a, a = std::move(a), a.swap(a): nothing changes, nothing is destroyed */
void c_self(P* a, P* c, Obj* A, Obj* B, uint64_t extA, uint64_t extB, Obj* oa, unsigned kind)
__CPROVER_requires(a != c && oa == H(a) && pre_ok(A, B, extA, extB, H(a), H(c), 0))
__CPROVER_assigns(*a, g_delA, g_delB, g_del_other, ir_live_allocs, __CPROVER_object_whole(A), __CPROVER_object_whole(B))
__CPROVER_frees(A, B)
__CPROVER_ensures(H(a) == oa && H(c) == __CPROVER_old(H(c)) && g_delA == 0 && g_delB == 0)
__CPROVER_ensures(POST(H(a), H(c), (Obj*)0, oa, __CPROVER_old(H(c)), (Obj*)0))
{ if (kind == 0) w_cp_copy_assign(a, a); else if (kind == 1) w_cp_move_assign(a, a); else w_cp_swap(a, a); }
void HARNESS(void)
{
  MK_OBJS() MK_HANDLE(a, in_sa) MK_HANDLE(c, in_sc)
  INPUT(unsigned, in_kind); __CPROVER_assume(in_kind <= 2);
  SET_COUNTS(H(&a), H(&c), 0);
  c_self(&a, &c, A, B, in_extA, in_extB, H(&a), in_kind);
  CANARY();
}

/* ======================================================================================== release: destructor, reset */
#elif defined(OP_release)
/* kind 0: ~CountingPtr (the handle ceases to exist), 1: reset() (the handle becomes empty) */
void c_release(P* a, P* c, Obj* A, Obj* B, uint64_t extA, uint64_t extB, Obj* oa, unsigned kind)
__CPROVER_requires(a != c && oa == H(a) && pre_ok(A, B, extA, extB, H(a), H(c), 0))
__CPROVER_assigns(*a, g_delA, g_delB, g_del_other, ir_live_allocs, __CPROVER_object_whole(A), __CPROVER_object_whole(B))
__CPROVER_frees(A, B)
__CPROVER_ensures((kind == 0 || H(a) == 0) && H(c) == __CPROVER_old(H(c)))
__CPROVER_ensures(POST((Obj*)0, H(c), (Obj*)0, oa, __CPROVER_old(H(c)), (Obj*)0))
/* the block of a destroyed object is returned, nothing else */
__CPROVER_ensures(ir_live_allocs == __CPROVER_old(ir_live_allocs) - g_delA - g_delB)
{ if (kind == 0) w_cp_dtor(a); else w_cp_reset(a); }
void HARNESS(void)
{
  MK_OBJS() MK_HANDLE(a, in_sa) MK_HANDLE(c, in_sc)
  INPUT(unsigned, in_kind); __CPROVER_assume(in_kind <= 1);
  SET_COUNTS(H(&a), H(&c), 0);
  c_release(&a, &c, A, B, in_extA, in_extB, H(&a), in_kind);
  CANARY();
}

/* ======================================================================================== unify */
#elif defined(OP_unify)
/* unify(): if the handle shares its object it gets a private copy (fresh object, count 1, same payload) and the old
 * object loses one handle; otherwise nothing changes.  Nothing is destroyed either way. */
void c_unify(P* a, P* c, Obj* A, Obj* B, uint64_t extA, uint64_t extB, Obj* oa, uint64_t oldcnt, uint32_t pay)
__CPROVER_requires(a != c && oa == H(a) && pre_ok(A, B, extA, extB, H(a), H(c), 0))
__CPROVER_requires(oa == 0 || (oldcnt == RC(oa) && pay == PAYLOAD(oa)))
__CPROVER_assigns(*a, g_delA, g_delB, g_del_other, ir_live_allocs, __CPROVER_object_whole(A), __CPROVER_object_whole(B))
__CPROVER_ensures(g_delA == 0 && g_delB == 0 && g_del_other == 0 && H(c) == __CPROVER_old(H(c)))
__CPROVER_ensures((oa == 0 || oldcnt == 1) ? (H(a) == oa && ir_live_allocs == __CPROVER_old(ir_live_allocs))
                                           : (H(a) != 0 && H(a) != A && H(a) != B && RC(H(a)) == 1 && PAYLOAD(H(a)) == pay &&
                                              ir_live_allocs == __CPROVER_old(ir_live_allocs) + 1))
__CPROVER_ensures(POST(H(a) == A || H(a) == B ? H(a) : (Obj*)0, H(c), (Obj*)0, oa, __CPROVER_old(H(c)), (Obj*)0))
{ w_cp_unify(a); }
void HARNESS(void)
{
  MK_OBJS() MK_HANDLE(a, in_sa) MK_HANDLE(c, in_sc)
  SET_COUNTS(H(&a), H(&c), 0);
  c_unify(&a, &c, A, B, in_extA, in_extB, H(&a), H(&a) ? RC(H(&a)) : 0, H(&a) ? PAYLOAD(H(&a)) : 0);
  CANARY();
}

/* ======================================================================================== observers */
#elif defined(OP_observe)
void c_observe(P* a, P* b, Obj* A, Obj* B, uint64_t extA, uint64_t extB, Obj* raw)
__CPROVER_requires(a != b && hval_ok(raw, A, B) && pre_ok(A, B, extA, extB, H(a), H(b), 0))
__CPROVER_assigns()
__CPROVER_ensures(w_cp_get(a) == H(a) && w_cp_valid(a) == (H(a) != 0) && w_cp_bool(a) == (H(a) != 0) && w_cp_empty(a) == (H(a) == 0))
__CPROVER_ensures(w_cp_unique(a) == (H(a) != 0 && hcount(H(a), H(a) == A ? extA : extB, H(a), H(b), 0) == 1))
__CPROVER_ensures(H(a) == 0 || w_cp_use_count(a) == hcount(H(a), H(a) == A ? extA : extB, H(a), H(b), 0))
__CPROVER_ensures(w_cp_eq(a, b) == (H(a) == H(b)) && w_cp_ne(a, b) == (H(a) != H(b)) && w_cp_eq_ptr(a, raw) == (H(a) == raw) && w_cp_ne_ptr(a, raw) == (H(a) != raw))
{ w_cp_get(a); }
void HARNESS(void)
{
  MK_OBJS() MK_HANDLE(a, in_sa) MK_HANDLE(b, in_sb)
  INPUT(uint8_t, in_sraw); __CPROVER_assume(in_sraw <= 2);
  SET_COUNTS(H(&a), H(&b), 0);
  c_observe(&a, &b, A, B, in_extA, in_extB, SEL(in_sraw));
  CANARY();
}

/* ======================================================================================== make_counting */
#elif defined(OP_make)
void c_make(P* n, uint32_t pay)
__CPROVER_assigns(*n, ir_live_allocs, g_del_other, g_delA, g_delB)
__CPROVER_ensures(H(n) != 0 && RC(H(n)) == 1 && PAYLOAD(H(n)) == pay && ir_live_allocs == __CPROVER_old(ir_live_allocs) + 1 && g_del_other == 0)
{ w_cp_make_counting(n, pay); }
void HARNESS(void)
{
  P n; INPUT(uint32_t, in_pay);
  g_A = 0; g_B = 0; g_delA = 0; g_delB = 0; g_del_other = 0; ir_live_allocs = 0;
  c_make(&n, in_pay);
  CANARY();
}
#else
#error "no OP_ selected"
#endif
