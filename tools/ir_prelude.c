/* ir_prelude.c -- the only hand-written code linked under the extracted functions (CBMC side).
 * Own byte loops for the llvm.mem* intrinsics: CBMC 6.11's built-in models are imprecise for symbolic
 * lengths (see DESIGN 2.2). operator new = malloc assumed non-null, operator delete = free. */
#include "ir_prelude.h"
int ir_throw_allowed;
uint8_t* ir_memcpy(uint8_t* d, uint8_t* s, uint64_t n) { for (uint64_t i = 0; i < n; i++) d[i] = s[i]; return d; }
uint8_t* ir_memmove(uint8_t* d, uint8_t* s, uint64_t n)
{
  if ((uintptr_t)d <= (uintptr_t)s) { for (uint64_t i = 0; i < n; i++) d[i] = s[i]; }
  else { for (uint64_t i = n; i > 0; i--) d[i - 1] = s[i - 1]; }
  return d;
}
uint8_t* ir_memset(uint8_t* d, uint8_t c, uint64_t n) { for (uint64_t i = 0; i < n; i++) d[i] = c; return d; }
uint8_t* ir_alloc_exception(uint64_t n) { uint8_t* p = malloc(n); __CPROVER_assume(p != 0); return p; }
void ir_throw_event(int kind) { __CPROVER_assert(kind == ir_throw_allowed, "exception thrown only where the contract expects it"); }
/* ghost allocation ledger: number of blocks obtained from operator new and not yet returned */
uint64_t ir_live_allocs;
uint8_t* _Znwm(uint64_t n) { uint8_t* p = malloc(n); __CPROVER_assume(p != 0); ir_live_allocs++; return p; }
uint8_t* _Znam(uint64_t n) { uint8_t* p = malloc(n); __CPROVER_assume(p != 0); ir_live_allocs++; return p; }
void _ZdlPv(uint8_t* p) { if (p) ir_live_allocs--; free(p); }
void _ZdaPv(uint8_t* p) { if (p) ir_live_allocs--; free(p); }
void _ZdlPvm(uint8_t* p, uint64_t n) { if (p) ir_live_allocs--; free(p); }
void _ZdaPvm(uint8_t* p, uint64_t n) { if (p) ir_live_allocs--; free(p); }
/* libc byte/string functions as plain loops over unsigned char (ISO C semantics) */
uint32_t ir_memcmp(uint8_t* a, uint8_t* b, uint64_t n)
{ for (uint64_t i = 0; i < n; i++) if (a[i] != b[i]) return a[i] < b[i] ? (uint32_t)-1 : 1u; return 0; }
uint32_t ir_strncmp(uint8_t* a, uint8_t* b, uint64_t n)
{ for (uint64_t i = 0; i < n; i++) { if (a[i] != b[i]) return a[i] < b[i] ? (uint32_t)-1 : 1u; if (a[i] == 0) return 0; } return 0; }
uint32_t ir_strcmp(uint8_t* a, uint8_t* b)
{ for (uint64_t i = 0;; i++) { if (a[i] != b[i]) return a[i] < b[i] ? (uint32_t)-1 : 1u; if (a[i] == 0) return 0; } }
uint64_t ir_strlen(uint8_t* s) { uint64_t n = 0; while (s[n] != 0) n++; return n; }
uint8_t* ir_memchr(uint8_t* s, uint32_t c, uint64_t n)
{ for (uint64_t i = 0; i < n; i++) if (s[i] == (uint8_t)c) return s + i; return 0; }
