#!/usr/bin/env python3
"""c2n.py -- turn a CBMC contract file into a natively executable runtime-checking version.

A function definition carrying __CPROVER_requires / __CPROVER_ensures / __CPROVER_assigns clauses

    RET name(PARAMS) <clauses> { BODY }

becomes

    static RET name__body(PARAMS) { BODY }
    RET name(PARAMS) { check requires; snapshot __CPROVER_old(...); call; check ensures; }

A declaration with clauses (contract used only for replacement) keeps only its prototype: natively the real
function is linked.  assigns / frees clauses have no native counterpart (frame violations are reported by the
verifier only).  usage: c2n.py in.c out.c
"""
import re, sys

CL = re.compile(r'__CPROVER_(requires|ensures|assigns|frees)\s*\(')


def match_paren(s, i, op='(', cl=')'):
    """s[i] == op; return index just after the matching close"""
    d = 0
    n = len(s)
    while i < n:
        c = s[i]
        if c == '"':
            i += 1
            while s[i] != '"':
                if s[i] == '\\': i += 1
                i += 1
        elif c == "'":
            i += 1
            while s[i] != "'":
                if s[i] == '\\': i += 1
                i += 1
        elif c == op: d += 1
        elif c == cl:
            d -= 1
            if d == 0: return i + 1
        i += 1
    raise SyntaxError('unbalanced')


def strip_comments(s):
    s = re.sub(r'/\*.*?\*/', lambda m: ' ' * 0 + re.sub(r'[^\n]', ' ', m.group(0)), s, flags=re.S)
    s = re.sub(r'//[^\n]*', '', s)
    return s


def param_names(params):
    params = params.strip()
    if params in ('', 'void'): return []
    out = []; d = 0; cur = ''
    for c in params:
        if c in '([': d += 1
        if c in ')]': d -= 1
        if c == ',' and d == 0:
            out.append(cur); cur = ''
        else: cur += c
    out.append(cur)
    names = []
    for p in out:
        p = re.sub(r'\[[^\]]*\]', '', p)
        m = re.search(r'([A-Za-z_][A-Za-z0-9_]*)\s*$', p)
        names.append(m.group(1))
    return names


def cstr(s):
    return '"' + re.sub(r'\s+', ' ', s).replace('\\', '\\\\').replace('"', '\\"') + '"'


def convert(src):
    s = strip_comments(src)
    out = []
    pos = 0
    while True:
        m = CL.search(s, pos)
        if not m: break
        # a clause inside a preprocessor line (e.g. #define X_FRAME __CPROVER_assigns(...)) is left alone
        ls = s.rfind('\n', 0, m.start()) + 1
        if s[ls:m.start()].lstrip().startswith('#'):
            le = s.find('\n', m.start())
            le = len(s) if le < 0 else le
            out.append(s[pos:le]); pos = le
            continue
        # header: back from m.start() to previous ';' or '}' or preprocessor line
        hstart = max(s.rfind(';', pos, m.start()), s.rfind('}', pos, m.start()))
        hstart = hstart + 1 if hstart >= 0 else pos
        # skip preprocessor lines inside header region
        header = s[hstart:m.start()]
        lines = header.split('\n')
        keep_from = 0
        cont = False
        for k, ln in enumerate(lines):
            if ln.strip().startswith('#') or cont: keep_from = k + 1
            cont = (ln.strip().startswith('#') or cont) and ln.rstrip().endswith('\\')
        pre_hdr = '\n'.join(lines[:keep_from])
        header = '\n'.join(lines[keep_from:])
        out.append(s[pos:hstart] + pre_hdr + ('\n' if keep_from else ''))
        hm = re.match(r'\s*(.*?)([A-Za-z_][A-Za-z0-9_]*)\s*\((.*)\)\s*$', header, re.S)
        if not hm: raise SyntaxError('cannot parse function header: %r' % header[:200])
        ret, name, params = hm.group(1).strip(), hm.group(2), hm.group(3)
        i = m.start()
        clauses = []
        while True:
            mm = CL.match(s, i)
            if not mm:
                fm = re.match(r'[A-Z][A-Z0-9_]*_FRAME\b\s*', s[i:])   # macro that expands to assigns/frees clauses only
                if fm:
                    i += fm.end(); continue
                break
            e = match_paren(s, mm.end() - 1)
            clauses.append((mm.group(1), s[mm.end():e - 1]))
            i = e
            while s[i].isspace(): i += 1
        if s[i] == ';':
            out.append('%s %s(%s);' % (ret, name, params))
            pos = i + 1
            continue
        if s[i] != '{': raise SyntaxError('expected { or ; after contract of ' + name)
        e = match_paren(s, i, '{', '}')
        body = s[i:e]
        pos = e
        names = param_names(params)
        is_void = (re.sub(r'\b(static|inline|extern)\b', '', ret).strip() == 'void')
        sret = re.sub(r'\b(static|inline|extern)\b', '', ret).strip()
        w = []
        w.append('static %s %s__body(%s) %s' % (sret, name, params, body))
        w.append('%s %s(%s) {' % (ret, name, params))
        olds = []
        def repl_old(text):
            res = ''; j = 0
            while True:
                k = text.find('__CPROVER_old', j)
                if k < 0: res += text[j:]; break
                res += text[j:k]
                p = text.index('(', k)
                e2 = match_paren(text, p)
                expr = text[p + 1:e2 - 1]
                olds.append(expr)
                res += 'rp_old_%d' % len(olds)
                j = e2
            return res
        req = [c for k, c in clauses if k == 'requires']
        ens = [repl_old(c) for k, c in clauses if k == 'ensures']
        for n_, c in enumerate(req):
            w.append('  if (!(%s)) rp_pre_fail("%s", %d, %s);' % (c, name, n_ + 1, cstr(c)))
        for n_, c in enumerate(olds):
            w.append('  __typeof__(%s) rp_old_%d = (%s);' % (c, n_ + 1, c))
        call = '%s__body(%s)' % (name, ', '.join(names))
        if is_void: w.append('  %s;' % call)
        else: w.append('  %s rp_ret = %s;' % (sret, call))
        for n_, c in enumerate(ens):
            c2 = c.replace('__CPROVER_return_value', 'rp_ret')
            w.append('  if (!(%s)) rp_ens_fail("%s", %d, %s);' % (c2, name, n_ + 1, cstr(c)))
        if not is_void: w.append('  return rp_ret;')
        w.append('}')
        out.append('\n'.join(w))
    out.append(s[pos:])
    return ''.join(out)


if __name__ == '__main__':
    open(sys.argv[2], 'w').write(convert(open(sys.argv[1]).read()))
