#!/usr/bin/env python3
"""ir2c.py -- translate clang -O0 LLVM-14 textual IR (typed pointers) to C for CBMC.

usage: ir2c.py in.ll out_base [--roots f1,f2,...] [--root-prefix w_]
writes out_base.h (types, prototypes, extern globals), out_base.c (globals, bodies) and
out_base.json (emitted functions, declared-only externals that are called, dropped items).
Only functions reachable from the roots are emitted.
Anything outside the supported subset raises (exit 2 at the caller) -- nothing is skipped silently.
"""
import re, sys, collections

# ---------------------------------------------------------------- tokenizer
TOK = re.compile(r'''
  (?P<ws>\s+)
 |(?P<cstr>c"(?:[^"\\]|\\[0-9A-Fa-f]{2}|\\\\)*")
 |(?P<str>"(?:[^"\\]|\\.)*")
 |(?P<lid>%(?:"(?:[^"\\]|\\.)*"|[-a-zA-Z$._0-9]+))
 |(?P<gid>@(?:"(?:[^"\\]|\\.)*"|[-a-zA-Z$._0-9]+))
 |(?P<md>![-a-zA-Z$._0-9]*)
 |(?P<comdat>\$(?:"(?:[^"\\]|\\.)*"|[-a-zA-Z$._0-9]+))
 |(?P<attr>\#[0-9]+)
 |(?P<hexf>0x[KLMHR]?[0-9A-Fa-f]+)
 |(?P<flt>-?[0-9]+\.[0-9]*(?:[eE][-+]?[0-9]+)?)
 |(?P<int>-?[0-9]+)
 |(?P<dots>\.\.\.)
 |(?P<word>[a-zA-Z_][-a-zA-Z_.0-9]*)
 |(?P<p>[()\[\]{}<>,=*:|])
''', re.X)

def tokenize(s):
    out = []
    pos = 0
    n = len(s)
    while pos < n:
        if s[pos] == ';':
            break
        m = TOK.match(s, pos)
        if not m:
            raise SyntaxError("cannot tokenize at %r" % s[pos:pos + 40])
        pos = m.end()
        k = m.lastgroup
        if k == 'ws':
            continue
        out.append((k, m.group(k)))
    return out

class Toks:
    def __init__(self, toks, line=''):
        self.t = toks; self.i = 0; self.line = line
    def peek(self, o=0):
        j = self.i + o
        return self.t[j] if j < len(self.t) else ('eof', '')
    def next(self):
        t = self.peek(); self.i += 1; return t
    def accept(self, v):
        if self.peek()[1] == v:
            self.i += 1; return True
        return False
    def expect(self, v):
        t = self.next()
        if t[1] != v:
            raise SyntaxError("expected %r got %r in: %s" % (v, t, self.line))
    def eof(self):
        return self.i >= len(self.t)

# ---------------------------------------------------------------- types
class T:
    def __init__(self, k, **kw):
        self.k = k; self.__dict__.update(kw)
    def __repr__(self):
        return tstr(self)
def tstr(t):
    k = t.k
    if k == 'int': return 'i%d' % t.bits
    if k in ('void', 'float', 'double', 'label', 'metadata', 'x86_fp80', 'opaque', 'token'): return k
    if k == 'ptr': return tstr(t.to) + '*'
    if k == 'arr': return '[%d x %s]' % (t.n, tstr(t.el))
    if k == 'vec': return '<%d x %s>' % (t.n, tstr(t.el))
    if k == 'struct': return ('<{%s}>' if t.packed else '{%s}') % ','.join(tstr(x) for x in t.els)
    if k == 'named': return '%' + t.name
    if k == 'fn': return '%s(%s%s)' % (tstr(t.ret), ','.join(tstr(x) for x in t.args), ',...' if t.vararg else '')
    return '?' + k

def parse_type(tk):
    k, v = tk.next()
    if k == 'word':
        if v == 'void': t = T('void')
        elif re.fullmatch(r'i[0-9]+', v): t = T('int', bits=int(v[1:]))
        elif v in ('float', 'double', 'x86_fp80', 'label', 'metadata', 'opaque', 'token'): t = T(v)
        elif v == 'ptr': t = T('ptr', to=T('int', bits=8))
        else: raise SyntaxError("type? %r in %s" % (v, tk.line))
    elif k == 'lid':
        t = T('named', name=unq(v[1:]))
    elif v == '[':
        n = int(tk.next()[1]); tk.expect('x'); el = parse_type(tk); tk.expect(']')
        t = T('arr', n=n, el=el)
    elif v == '<':
        if tk.peek()[1] == '{':
            tk.next(); els = []
            if not tk.accept('}'):
                while True:
                    els.append(parse_type(tk))
                    if tk.accept('}'): break
                    tk.expect(',')
            tk.expect('>')
            t = T('struct', els=els, packed=True)
        else:
            n = int(tk.next()[1]); tk.expect('x'); el = parse_type(tk); tk.expect('>')
            t = T('vec', n=n, el=el)
    elif v == '{':
        els = []
        if not tk.accept('}'):
            while True:
                els.append(parse_type(tk))
                if tk.accept('}'): break
                tk.expect(',')
        t = T('struct', els=els, packed=False)
    else:
        raise SyntaxError("type? %r in %s" % (v, tk.line))
    while True:
        if tk.peek()[1] == '*':
            tk.next(); t = T('ptr', to=t)
        elif tk.peek()[1] == '(':
            tk.next(); args = []; va = False
            if not tk.accept(')'):
                while True:
                    if tk.peek()[0] == 'dots':
                        tk.next(); va = True
                    else:
                        args.append(parse_type(tk))
                    if tk.accept(')'): break
                    tk.expect(',')
            t = T('fn', ret=t, args=args, vararg=va)
        elif tk.peek()[1] == 'addrspace':
            tk.next(); tk.expect('('); tk.next(); tk.expect(')')
        else:
            break
    return t

def unq(s):
    if s.startswith('"'):
        s = s[1:-1]
        s = re.sub(r'\\([0-9A-Fa-f]{2})', lambda m: chr(int(m.group(1), 16)), s)
    return s

# ---------------------------------------------------------------- values
class V:
    def __init__(self, k, **kw):
        self.k = k; self.__dict__.update(kw)

CAST_OPS = ('bitcast', 'ptrtoint', 'inttoptr', 'trunc', 'zext', 'sext', 'fptrunc', 'fpext', 'fptoui',
            'fptosi', 'uitofp', 'sitofp', 'addrspacecast')
BIN_OPS = ('add', 'sub', 'mul', 'udiv', 'sdiv', 'urem', 'srem', 'and', 'or', 'xor', 'shl', 'lshr', 'ashr',
           'fadd', 'fsub', 'fmul', 'fdiv', 'frem')
PARAM_ATTRS = set('''noundef nonnull zeroext signext inreg noalias nocapture readonly readnone writeonly returned
 nofree nest immarg swiftself swifterror noundef inalloca'''.split())

def skip_param_attrs(tk):
    while True:
        k, v = tk.peek()
        if k == 'word' and v in PARAM_ATTRS:
            tk.next()
        elif k == 'word' and v in ('align', 'dereferenceable', 'dereferenceable_or_null'):
            tk.next()
            if tk.accept('('):
                tk.next(); tk.expect(')')
            else:
                tk.next()
        elif k == 'word' and v in ('byval', 'sret', 'byref', 'preallocated', 'elementtype'):
            tk.next()
            if tk.accept('('):
                parse_type(tk); tk.expect(')')
        else:
            break

def parse_value(tk, ty):
    k, v = tk.next()
    if k == 'lid': return V('local', name=unq(v[1:]), ty=ty)
    if k == 'gid': return V('global', name=ALIASES.get(unq(v[1:]), unq(v[1:])), ty=ty)
    if k == 'int': return V('int', val=int(v), ty=ty)
    if k == 'flt': return V('flt', val=v, ty=ty)
    if k == 'hexf': return V('hexf', val=v, ty=ty)
    if k == 'cstr': return V('cstr', val=cstr_bytes(v), ty=ty)
    if k == 'word':
        if v == 'true': return V('int', val=1, ty=ty)
        if v == 'false': return V('int', val=0, ty=ty)
        if v == 'null': return V('null', ty=ty)
        if v in ('undef', 'poison'): return V('undef', ty=ty)
        if v == 'zeroinitializer': return V('zero', ty=ty)
        if v == 'getelementptr':
            tk.accept('inbounds')
            tk.expect('(')
            bt = parse_type(tk); tk.expect(',')
            ops = []
            while True:
                tk.accept('inrange')
                t2 = parse_type(tk); ops.append(parse_value(tk, t2))
                if tk.accept(')'): break
                tk.expect(',')
            return V('cgep', base_ty=bt, ops=ops, ty=ty)
        if v in CAST_OPS:
            tk.expect('(')
            t1 = parse_type(tk); x = parse_value(tk, t1); tk.expect('to'); t2 = parse_type(tk); tk.expect(')')
            return V('ccast', op=v, x=x, ty=t2)
        if v in BIN_OPS:
            while tk.peek()[1] in ('nsw', 'nuw', 'exact'): tk.next()
            tk.expect('(')
            t1 = parse_type(tk); a = parse_value(tk, t1); tk.expect(',')
            t2 = parse_type(tk); b = parse_value(tk, t2); tk.expect(')')
            return V('cbin', op=v, a=a, b=b, ty=t1)
        if v == 'asm':
            while tk.peek()[1] in ('sideeffect', 'alignstack', 'inteldialect', 'unwind'): tk.next()
            tmpl = tk.next()[1]; tk.expect(','); cons = tk.next()[1]
            return V('asm', tmpl=unq(tmpl), cons=unq(cons), ty=ty)
        if v == 'blockaddress' or v == 'dso_local_equivalent':
            raise SyntaxError("unsupported const " + v)
    if v == '{' or (v == '<' and tk.peek()[1] == '{'):
        packed = False
        if v == '<':
            tk.next(); packed = True
        els = []
        if not tk.accept('}'):
            while True:
                t1 = parse_type(tk); els.append(parse_value(tk, t1))
                if tk.accept('}'): break
                tk.expect(',')
        if packed: tk.expect('>')
        return V('cstruct', els=els, ty=ty)
    if v == '[':
        els = []
        if not tk.accept(']'):
            while True:
                t1 = parse_type(tk); els.append(parse_value(tk, t1))
                if tk.accept(']'): break
                tk.expect(',')
        return V('carr', els=els, ty=ty)
    if v == '<':
        els = []
        while True:
            t1 = parse_type(tk); els.append(parse_value(tk, t1))
            if tk.accept('>'): break
            tk.expect(',')
        return V('cvec', els=els, ty=ty)
    raise SyntaxError("value? %r %r in %s" % (k, v, tk.line))

def cstr_bytes(v):
    s = v[2:-1]; out = []; i = 0
    while i < len(s):
        if s[i] == '\\':
            if s[i + 1] == '\\':
                out.append(92); i += 2
            else:
                out.append(int(s[i + 1:i + 3], 16)); i += 3
        else:
            out.append(ord(s[i])); i += 1
    return out

def parse_tv(tk):
    t = parse_type(tk); skip_param_attrs(tk)
    return parse_value(tk, t)

# ---------------------------------------------------------------- module parse
class Func:
    pass

class Module:
    def __init__(self):
        self.types = collections.OrderedDict()
        self.globals = collections.OrderedDict()
        self.funcs = collections.OrderedDict()
        self.decls = collections.OrderedDict()
        self.global_lines = {}
        self.aliases = {}

LINKAGE = set('''private internal available_externally linkonce weak common appending extern_weak linkonce_odr weak_odr
 external dso_local dso_preemptable default hidden protected dllimport dllexport thread_local unnamed_addr
 local_unnamed_addr externally_initialized'''.split())
CCONV = set('ccc fastcc coldcc cc x86_stdcallcc x86_fastcallcc x86_thiscallcc'.split())

ALIASES = {}

def parse_module(text):
    m = Module()
    # aliases first (constructor C1 -> C2 etc.): every later reference is resolved to the aliasee
    for am in re.finditer(r'^@("(?:[^"\\]|\\.)*"|[-a-zA-Z$._0-9]+) = [^\n]*\balias\b[^\n]*@("(?:[^"\\]|\\.)*"|[-a-zA-Z$._0-9]+)\s*$', text, re.M):
        ALIASES[unq(am.group(1))] = unq(am.group(2))
    lines = text.split('\n')
    i = 0
    while i < len(lines):
        ln = lines[i]; i += 1
        s = ln.strip()
        if not s or s.startswith(';') or s.startswith('source_filename') or s.startswith('target ') \
           or s.startswith('attributes ') or s.startswith('!') or s.startswith('$'):
            continue
        if s.startswith('%') and ' = type ' in s:
            tk = Toks(tokenize(s), s)
            name = unq(tk.next()[1][1:]); tk.expect('='); tk.expect('type')
            m.types[name] = parse_type(tk)
            continue
        if s.startswith('@'):
            tk = Toks(tokenize(s), s)
            name = unq(tk.next()[1][1:]); tk.expect('=')
            is_ext = False
            while tk.peek()[0] == 'word' and tk.peek()[1] in LINKAGE:
                if tk.peek()[1] in ('external', 'extern_weak', 'available_externally'): is_ext = tk.peek()[1] != 'available_externally' or is_ext
                w = tk.next()[1]
                if w == 'thread_local' and tk.accept('('):
                    tk.next(); tk.expect(')')
            if tk.peek()[1] == 'alias':
                tgt = re.findall(r'@("(?:[^"\\]|\\.)*"|[-a-zA-Z$._0-9]+)', s.split('alias', 1)[1])
                m.aliases[name] = unq(tgt[-1])
                continue
            const = tk.next()[1]  # global | constant
            ty = parse_type(tk)
            init = None
            if not tk.eof() and tk.peek()[1] != ',':
                init = parse_value(tk, ty)
            m.globals[name] = (ty, init, const == 'constant')
            m.global_lines[name] = s
            continue
        if s.startswith('declare'):
            tk = Toks(tokenize(s), s); tk.next()
            f = parse_fn_header(tk)
            m.decls[f.name] = f
            continue
        if s.startswith('define'):
            tk = Toks(tokenize(s), s); tk.next()
            f = parse_fn_header(tk)
            body = []
            while True:
                ln = lines[i]; i += 1
                if ln.startswith('}'): break
                # join continuation lines (invoke ... to label / landingpad clauses / switch bodies)
                body.append(ln)
            f.blocks = parse_body(body, f)
            m.funcs[f.name] = f
            continue
        raise SyntaxError("toplevel? " + s[:80])
    return m

def parse_fn_header(tk):
    f = Func()
    while tk.peek()[0] == 'word' and (tk.peek()[1] in LINKAGE or tk.peek()[1] in CCONV):
        tk.next()
    skip_param_attrs(tk)
    f.ret = parse_type(tk)
    # ret type parser may have swallowed "(args)" as function type -- it can't, since name comes before '('
    f.name = unq(tk.next()[1][1:])
    tk.expect('(')
    f.params = []; f.vararg = False
    n = 0
    if not tk.accept(')'):
        while True:
            if tk.peek()[0] == 'dots':
                tk.next(); f.vararg = True
            else:
                t = parse_type(tk); skip_param_attrs(tk)
                if tk.peek()[0] == 'lid':
                    nm = unq(tk.next()[1][1:])
                else:
                    nm = str(n)
                f.params.append((nm, t))
            n += 1
            if tk.accept(')'): break
            tk.expect(',')
    f.blocks = None
    return f

def parse_body(lines, f):
    # merge continuation lines
    merged = []
    for ln in lines:
        s = ln.rstrip()
        if not s.strip(): continue
        st = s.strip()
        if st.startswith(';'): continue
        is_label = re.match(r'^[-a-zA-Z$._0-9]+:|^"[^"]*":', st) and not s.startswith('  ')
        if is_label:
            merged.append(st); continue
        if merged and (st.startswith('to label') or st.startswith('cleanup') or st.startswith('catch ')
                       or st.startswith('filter ') or st == ']' or merged[-1].rstrip().endswith('[') or
                       (merged[-1].lstrip().startswith('switch') and not merged[-1].rstrip().endswith(']'))
                       or merged[-1].rstrip().endswith(',')):
            merged[-1] += ' ' + st
        else:
            merged.append(st)
    blocks = collections.OrderedDict()
    cur = None
    # implicit entry label
    nparams = len(f.params)
    for st in merged:
        mlab = re.match(r'^([-a-zA-Z$._0-9]+|"[^"]*"):', st)
        if mlab and '=' not in st.split(':')[0]:
            cur = unq(mlab.group(1)); blocks[cur] = []
            continue
        if cur is None:
            cur = str(nparams) if not blocks else cur
            # unnamed entry block gets number = count of unnamed params... simple approach:
            cur = '__entry'; blocks[cur] = []
        blocks[cur].append(parse_inst(st))
    return blocks

class I:
    def __init__(self, op, **kw):
        self.op = op; self.res = None; self.__dict__.update(kw)

def strip_md(tk):
    # drop trailing ", !dbg !12" etc. Works on token list: cut at first ', !xxx' at depth 0
    pass

def parse_inst(s):
    tk = Toks(tokenize(s), s)
    # remove trailing metadata attachments
    toks = tk.t
    depth = 0
    for j, (k, v) in enumerate(toks):
        if v in '([{': depth += 1
        elif v in ')]}': depth -= 1
        elif depth == 0 and v == ',' and j + 1 < len(toks) and toks[j + 1][0] == 'md':
            tk.t = toks[:j]; break
    res = None
    if tk.peek()[0] == 'lid' and tk.peek(1)[1] == '=':
        res = unq(tk.next()[1][1:]); tk.next()
    op = tk.next()[1]
    ins = I(op); ins.res = res; ins.line = s
    if op in ('tail', 'musttail', 'notail'):
        op = tk.next()[1]; ins.op = op
    if op == 'alloca':
        tk.accept('inalloca')
        ins.ty = parse_type(tk); ins.count = None
        if tk.accept(','):
            if tk.peek()[1] != 'align' and tk.peek()[1] != 'addrspace':
                ins.count = parse_tv(tk)
    elif op == 'load':
        ins.atomic = tk.accept('atomic'); tk.accept('volatile')
        ins.ty = parse_type(tk); tk.expect(','); ins.ptr = parse_tv(tk)
    elif op == 'store':
        ins.atomic = tk.accept('atomic'); tk.accept('volatile')
        ins.val = parse_tv(tk); tk.expect(','); ins.ptr = parse_tv(tk)
    elif op == 'getelementptr':
        tk.accept('inbounds')
        ins.base_ty = parse_type(tk); tk.expect(',')
        ins.ops = []
        while True:
            ins.ops.append(parse_tv(tk))
            if not tk.accept(','): break
    elif op in CAST_OPS:
        ins.x = parse_tv(tk); tk.expect('to'); ins.ty = parse_type(tk)
    elif op in BIN_OPS:
        ins.flags = []
        while tk.peek()[1] in ('nsw', 'nuw', 'exact', 'fast', 'nnan', 'ninf', 'nsz', 'arcp', 'contract', 'afn', 'reassoc'):
            ins.flags.append(tk.next()[1])
        ins.ty = parse_type(tk); ins.a = parse_value(tk, ins.ty); tk.expect(','); ins.b = parse_value(tk, ins.ty)
    elif op == 'fneg':
        while tk.peek()[1] in ('fast', 'nnan', 'ninf', 'nsz', 'arcp', 'contract', 'afn', 'reassoc'): tk.next()
        ins.ty = parse_type(tk); ins.a = parse_value(tk, ins.ty)
    elif op in ('icmp', 'fcmp'):
        while tk.peek()[1] in ('fast', 'nnan', 'ninf', 'nsz', 'arcp', 'contract', 'afn', 'reassoc'): tk.next()
        ins.pred = tk.next()[1]
        ins.ty = parse_type(tk); ins.a = parse_value(tk, ins.ty); tk.expect(','); ins.b = parse_value(tk, ins.ty)
    elif op == 'select':
        while tk.peek()[1] in ('fast', 'nnan', 'ninf', 'nsz', 'arcp', 'contract', 'afn', 'reassoc'): tk.next()
        ins.c = parse_tv(tk); tk.expect(','); ins.a = parse_tv(tk); tk.expect(','); ins.b = parse_tv(tk)
    elif op == 'br':
        if tk.peek()[1] == 'label':
            tk.next(); ins.cond = None; ins.t = unq(tk.next()[1][1:])
        else:
            ins.cond = parse_tv(tk); tk.expect(','); tk.expect('label'); ins.t = unq(tk.next()[1][1:])
            tk.expect(','); tk.expect('label'); ins.f = unq(tk.next()[1][1:])
    elif op == 'switch':
        ins.x = parse_tv(tk); tk.expect(','); tk.expect('label'); ins.default = unq(tk.next()[1][1:])
        tk.expect('['); ins.cases = []
        while not tk.accept(']'):
            cv = parse_tv(tk); tk.expect(','); tk.expect('label'); ins.cases.append((cv, unq(tk.next()[1][1:])))
    elif op == 'ret':
        if tk.peek()[1] == 'void':
            tk.next(); ins.val = None
        else:
            ins.val = parse_tv(tk)
    elif op in ('call', 'invoke'):
        while tk.peek()[0] == 'word' and (tk.peek()[1] in CCONV or tk.peek()[1] in
              ('fast', 'nnan', 'ninf', 'nsz', 'arcp', 'contract', 'afn', 'reassoc')):
            tk.next()
        skip_param_attrs(tk)
        rt = parse_type(tk)
        # rt may be a full function type (vararg callee) -> then ret is rt.ret
        if rt.k == 'fn':
            ins.fty = rt; rt = rt.ret
        ins.ty = rt
        ins.callee = parse_value(tk, None)
        tk.expect('('); ins.args = []
        if not tk.accept(')'):
            while True:
                if tk.peek()[1] == 'metadata':
                    # skip metadata args entirely
                    d = 0
                    while True:
                        k, v = tk.peek()
                        if v in '([{': d += 1
                        if v in ')]}':
                            if d == 0: break
                            d -= 1
                        if v == ',' and d == 0: break
                        tk.next()
                    ins.args.append(None)
                else:
                    ins.args.append(parse_tv(tk))
                if tk.accept(')'): break
                tk.expect(',')
        if op == 'invoke':
            while tk.peek()[1] != 'to': tk.next()
            tk.expect('to'); tk.expect('label'); ins.normal = unq(tk.next()[1][1:])
            tk.expect('unwind'); tk.expect('label'); ins.unwind = unq(tk.next()[1][1:])
    elif op == 'landingpad':
        ins.ty = parse_type(tk)
    elif op == 'resume':
        ins.val = parse_tv(tk)
    elif op == 'unreachable':
        pass
    elif op == 'extractvalue':
        ins.agg = parse_tv(tk); ins.idx = []
        while tk.accept(','): ins.idx.append(int(tk.next()[1]))
    elif op == 'insertvalue':
        ins.agg = parse_tv(tk); tk.expect(','); ins.val = parse_tv(tk); ins.idx = []
        while tk.accept(','): ins.idx.append(int(tk.next()[1]))
    elif op == 'phi':
        while tk.peek()[1] in ('fast', 'nnan', 'ninf', 'nsz', 'arcp', 'contract', 'afn', 'reassoc'): tk.next()
        ins.ty = parse_type(tk); ins.inc = []
        while True:
            tk.expect('['); v = parse_value(tk, ins.ty); tk.expect(','); lb = unq(tk.next()[1][1:]); tk.expect(']')
            ins.inc.append((v, lb))
            if not tk.accept(','): break
    elif op == 'atomicrmw':
        tk.accept('volatile'); ins.rmw = tk.next()[1]; ins.ptr = parse_tv(tk); tk.expect(','); ins.val = parse_tv(tk)
    elif op == 'cmpxchg':
        tk.accept('weak'); tk.accept('volatile')
        ins.ptr = parse_tv(tk); tk.expect(','); ins.cmp = parse_tv(tk); tk.expect(','); ins.new = parse_tv(tk)
    elif op == 'fence':
        pass
    elif op == 'freeze':
        ins.x = parse_tv(tk)
    elif op in ('extractelement', 'insertelement', 'shufflevector', 'va_arg'):
        raise SyntaxError("unsupported instruction " + op)
    else:
        raise SyntaxError("unknown instruction %r in %s" % (op, s))
    return ins

# ---------------------------------------------------------------- C emission
def san(name):
    return re.sub(r'[^A-Za-z0-9_]', '_', name)

class Emitter:
    def __init__(self, m):
        self.m = m
        self.typedefs = []      # (name, text)
        self.tnames = {}        # key -> c name
        self.struct_done = set()
        self.struct_order = []
        self.out = []
        self.extern_used = set()
        self.called = set()
        self.ext_globals = []
        self.throw_sites = 0
        self.noop_stubs = []
        self.asm_sites = 0

    # ---- types
    def ct(self, t):
        k = t.k
        if k == 'void': return 'void'
        if k == 'int':
            b = t.bits
            if b == 1: return '_Bool'
            if b <= 8: return 'uint8_t'
            if b <= 16: return 'uint16_t'
            if b <= 32: return 'uint32_t'
            if b <= 64: return 'uint64_t'
            if b <= 128: return 'unsigned __int128'
            raise NotImplementedError("int width %d" % b)
        if k == 'float': return 'float'
        if k == 'double': return 'double'
        if k == 'x86_fp80': return 'long double'
        if k == 'ptr':
            if t.to.k == 'fn': return self.fnptr(t.to)
            if t.to.k == 'void' or t.to.k == 'opaque': return 'void*'
            return self.ct(t.to) + '*'
        if k == 'named':
            self.need_struct(t.name)
            return 'struct ' + self.sname(t.name)
        if k == 'struct':
            key = tstr(t)
            if key not in self.tnames:
                nm = 'lit%d' % len(self.tnames)
                self.tnames[key] = nm
                self.def_struct(nm, t)
            return 'struct ' + self.tnames[key]
        if k == 'arr':
            key = tstr(t)
            if key not in self.tnames:
                nm = 'arr%d' % len(self.tnames)
                self.tnames[key] = nm
                el = self.ct(t.el)
                self.struct_order.append('struct %s { %s a[%d]; };' % (nm, el, max(t.n, 1)))
            return 'struct ' + self.tnames[key]
        if k == 'fn': return self.fnptr(t)
        raise NotImplementedError("type " + tstr(t))

    def fnptr(self, ft):
        key = 'fp:' + tstr(ft)
        if key not in self.tnames:
            nm = 'fnp%d' % len(self.tnames)
            self.tnames[key] = nm
            args = ', '.join(self.ct(a) for a in ft.args) or 'void'
            if ft.vararg and ft.args: args = args + ', ...'
            self.struct_order.append('typedef %s (*%s)(%s);' % (self.ct(ft.ret), nm, args))
        return self.tnames[key]

    def sname(self, name):
        return 'S_' + san(name)

    def need_struct(self, name):
        if name in self.struct_done: return
        self.struct_done.add(name)
        t = self.m.types.get(name)
        if t is None or t.k == 'opaque':
            self.struct_order.append('struct %s;' % self.sname(name))
            return
        self.def_struct(self.sname(name), t)

    def def_struct(self, cname, t):
        # forward declare first to allow self-referential pointers
        self.struct_order.append('struct %s;' % cname)
        fields = []
        for i, e in enumerate(t.els):
            fields.append('%s f%d;' % (self.ct_field(e), i))
        if not fields: fields = ['uint8_t empty_;']
        self.struct_order.append('struct %s%s { %s };' % ('__attribute__((packed)) ' if t.packed else '', cname, ' '.join(fields)))

    def ct_field(self, e):
        # pointer-to-struct fields must not force the definition order -> fine, we forward-declared
        return self.ct(e)

    def resolve(self, t):
        while t.k == 'named':
            t = self.m.types[t.name]
        return t

    # ---- values
    def val(self, v, fn=None):
        k = v.k
        if k == 'local': return fn.lname(v.name)
        if k == 'global':
            self.extern_used.add(v.name)
            if v.name in self.m.funcs or v.name in self.m.decls:
                return self.gname(v.name)
            return '(&%s)' % self.gname(v.name)
        if k == 'int':
            t = v.ty
            if t.k == 'int':
                val = v.val & ((1 << t.bits) - 1)
                if t.bits == 1: return str(val)
                return '((%s)%dULL)' % (self.ct(t), val)
            return str(v.val)
        if k == 'null': return '((%s)0)' % self.ct(v.ty)
        if k == 'undef' or k == 'zero':
            rt = self.resolve(v.ty)
            if rt.k in ('struct', 'arr'):
                return '((%s){0})' % self.ct(v.ty)
            return '((%s)0)' % self.ct(v.ty)
        if k == 'flt': return '((%s)%s)' % (self.ct(v.ty), v.val)
        if k == 'hexf':
            h = v.val
            if h.startswith('0xK') or h.startswith('0xL') or h.startswith('0xM') or h.startswith('0xH'):
                raise NotImplementedError("float const " + h)
            bits = int(h, 16)
            import struct
            d = struct.unpack('>d', bits.to_bytes(8, 'big'))[0]
            if d != d: return '((%s)(0.0/0.0))' % self.ct(v.ty)
            if d in (float('inf'), float('-inf')): return '((%s)(%s1.0/0.0))' % (self.ct(v.ty), '-' if d < 0 else '')
            return '((%s)%s)' % (self.ct(v.ty), d.hex())
        if k == 'ccast':
            return self.cast(v.op, v.x, v.ty, fn)
        if k == 'cgep':
            return self.gep(v.base_ty, v.ops, fn)
        if k == 'cbin':
            return self.binop(v.op, v.ty, v.a, v.b, fn, [])
        if k == 'cstruct':
            return '((%s){%s})' % (self.ct(v.ty), ', '.join(self.val(e, fn) for e in v.els))
        if k == 'carr':
            return '((%s){{%s}})' % (self.ct(v.ty), ', '.join(self.val(e, fn) for e in v.els))
        if k == 'cstr':
            return '((%s){{%s}})' % (self.ct(v.ty), ','.join(str(b) for b in v.val))
        raise NotImplementedError("value kind " + k)

    def init(self, v):
        """static initializer text (no compound literal casts)"""
        k = v.k
        if k == 'cstruct': return '{%s}' % ', '.join(self.init(e) for e in v.els)
        if k == 'carr': return '{{%s}}' % ', '.join(self.init(e) for e in v.els)
        if k == 'cstr': return '{{%s}}' % ','.join(str(b) for b in v.val)
        if k in ('zero', 'undef'):
            rt = self.resolve(v.ty)
            return '{0}' if rt.k in ('struct', 'arr') else '0'
        return self.val(v, None)

    def gname(self, name):
        if re.fullmatch(r'[A-Za-z_][A-Za-z0-9_]*', name): return name
        return 'g_' + san(name)

    def cast(self, op, x, ty, fn):
        xs = self.val(x, fn); ct = self.ct(ty)
        if op in ('bitcast', 'addrspacecast'):
            if ty.k == 'ptr' and x.ty is not None and x.ty.k == 'ptr' and ty.to.k in ('named', 'struct', 'int', 'ptr', 'double', 'float', 'arr'):
                # pointer to an object -> pointer to its first member (base-class / first-field upcast): member address
                # instead of a cast, so that the verifier keeps the access field-sensitive
                t = x.ty.to; path = ''
                for _ in range(6):
                    rt = self.resolve(t) if t.k == 'named' else t
                    if rt.k != 'struct' or not rt.els or getattr(rt, 'packed', False) and False: break
                    path += '.f0'; t = rt.els[0]
                    if tstr(t) == tstr(ty.to):
                        return '(&(%s)->%s)' % (xs, path[1:])
            if ty.k == 'ptr': return '((%s)%s)' % (ct, xs)
            # scalar bit reinterpretation
            return '(*(%s*)&(%s){%s})' % (ct, self.ct(x.ty), xs)
        if op == 'ptrtoint': return '((%s)(uintptr_t)%s)' % (ct, xs)
        if op == 'inttoptr': return '((%s)(uintptr_t)%s)' % (ct, xs)
        if op == 'trunc':
            if ty.bits == 1: return '((_Bool)(%s & 1))' % xs
            return '((%s)%s)' % (ct, xs)
        if op == 'zext': return '((%s)%s)' % (ct, xs)
        if op == 'sext':
            sb = x.ty.bits
            if sb == 1: return '((%s)(%s ? -1 : 0))' % (ct, xs)
            return '((%s)(%s)(%s)%s)' % (ct, self.sct(ty), self.sct(x.ty), xs)
        if op in ('fptrunc', 'fpext'): return '((%s)%s)' % (ct, xs)
        if op == 'fptoui': return '((%s)%s)' % (ct, xs)
        if op == 'fptosi': return '((%s)(%s)%s)' % (ct, self.sct(ty), xs)
        if op == 'uitofp': return '((%s)%s)' % (ct, xs)
        if op == 'sitofp': return '((%s)(%s)%s)' % (ct, self.sct(x.ty), xs)
        raise NotImplementedError(op)

    def sct(self, t):
        b = t.bits
        if b <= 8: return 'int8_t'
        if b <= 16: return 'int16_t'
        if b <= 32: return 'int32_t'
        if b <= 64: return 'int64_t'
        return '__int128'

    def binop(self, op, ty, a, b, fn, flags):
        A = self.val(a, fn); B = self.val(b, fn); ct = self.ct(ty)
        if ty.k in ('float', 'double', 'x86_fp80'):
            sym = {'fadd': '+', 'fsub': '-', 'fmul': '*', 'fdiv': '/'}.get(op)
            if sym is None: raise NotImplementedError(op)
            return '(%s %s %s)' % (A, sym, B)
        if ty.k != 'int': raise NotImplementedError("binop on " + tstr(ty))
        if ty.bits == 1:
            sym = {'and': '&', 'or': '|', 'xor': '^', 'add': '^', 'sub': '^'}[op]
            return '((_Bool)((%s %s %s) & 1))' % (A, sym, B)
        W = {8: 'uint32_t', 16: 'uint32_t', 32: 'uint32_t', 64: 'uint64_t'}.get(ty.bits, ct)
        sct = self.sct(ty)
        if op in ('add', 'sub', 'mul', 'and', 'or', 'xor'):
            sym = {'add': '+', 'sub': '-', 'mul': '*', 'and': '&', 'or': '|', 'xor': '^'}[op]
            return '((%s)((%s)%s %s (%s)%s))' % (ct, W, A, sym, W, B)
        if op == 'udiv': return '((%s)(%s / %s))' % (ct, A, B)
        if op == 'urem': return '((%s)(%s %% %s))' % (ct, A, B)
        if op == 'sdiv': return '((%s)((%s)%s / (%s)%s))' % (ct, sct, A, sct, B)
        if op == 'srem': return '((%s)((%s)%s %% (%s)%s))' % (ct, sct, A, sct, B)
        if op == 'shl': return '((%s)((%s)%s << %s))' % (ct, W, A, B)
        if op == 'lshr': return '((%s)(%s >> %s))' % (ct, A, B)
        if op == 'ashr': return '((%s)((%s)%s >> %s))' % (ct, sct, A, B)
        raise NotImplementedError(op)

    def gep(self, base_ty, ops, fn):
        p = self.val(ops[0], fn)
        idx0 = ops[1]
        expr = '%s[%s]' % (p, self.idx(idx0, fn))
        t = base_ty
        for o in ops[2:]:
            rt = self.resolve(t)
            if rt.k == 'struct':
                n = o.val
                expr = '%s.f%d' % (expr, n); t = rt.els[n]
            elif rt.k == 'arr':
                self.ct(rt)
                expr = '%s.a[%s]' % (expr, self.idx(o, fn)); t = rt.el
            else:
                raise NotImplementedError("gep into " + tstr(rt))
        return '(&%s)' % expr

    def idx(self, o, fn):
        if o.k == 'int': return str(o.val)
        # indices are signed
        return '(%s)%s' % (self.sct(o.ty), self.val(o, fn))

    # ---- functions
    def proto(self, f, named=True):
        ps = []
        for nm, t in f.params:
            ps.append(self.ct(t) + (' ' + f.pname(nm) if named else ''))
        if f.vararg: ps.append('...')
        return '%s %s(%s)' % (self.ct(f.ret), self.gname(f.name), ', '.join(ps) or 'void')

def prep_func(f):
    f.names = {}
    def lname(n):
        if n not in f.names:
            c = san(n)
            if re.match(r'^[0-9]', c): c = 'v' + c
            base = c; k = 1
            while c in f.names.values() or c in C_KEYWORDS:
                k += 1; c = '%s_%d' % (base, k)
            f.names[n] = c
        return f.names[n]
    f.lname = lname
    f.pname = lname

C_KEYWORDS = set('auto break case char const continue default do double else enum extern float for goto if int long register return short signed sizeof static struct switch typedef union unsigned void volatile while inline restrict _Bool main'.split())

def emit_module(m, roots=None):
    """returns (header_text, body_text, info)"""
    E = Emitter(m)
    for f in list(m.funcs.values()) + list(m.decls.values()):
        prep_func(f)
    # reachability (through functions and through global initialisers such as vtables)
    gref = re.compile(r'@("(?:[^"\\]|\\.)*"|[-a-zA-Z$._0-9]+)')
    if roots:
        seen = set(); work = list(roots)
        while work:
            n = work.pop()
            if n in seen: continue
            if n in m.funcs:
                seen.add(n)
                for bl in m.funcs[n].blocks.values():
                    for ins in bl:
                        for g in gref.findall(ins.line):
                            work.append(ALIASES.get(unq(g), unq(g)))
            elif n in m.globals and n in m.global_lines:
                seen.add(n)
                for g in gref.findall(m.global_lines[n].split('=', 1)[1]):
                    work.append(ALIASES.get(unq(g), unq(g)))
        funcs = [f for f in m.funcs.values() if f.name in seen]
    else:
        funcs = list(m.funcs.values())
    bodies = []
    for f in funcs:
        bodies.append(emit_func(E, f))
    # globals & decls used
    gl = []; gx = []
    protos = []
    done = set()
    changed = True
    while changed:
        changed = False
        for name in sorted(E.extern_used):
            if name in done: continue
            done.add(name); changed = True
            if name in m.globals:
                ty, init, const = m.globals[name]
                ct = E.ct(ty)
                if init is not None:
                    gl.append('%s%s %s = %s;' % ('const ' if const else '', ct, E.gname(name), E.init(init)))
                    gx.append('extern %s%s %s;' % ('const ' if const else '', ct, E.gname(name)))
                else:
                    gx.append('extern %s %s;' % (ct, E.gname(name)))
                    E.ext_globals.append(name)
    called_decls = []
    for f in list(m.funcs.values()) + list(m.decls.values()):
        if f.name in E.extern_used or f in funcs:
            if f.name.startswith('llvm.'): continue
            protos.append(E.proto(f, named=False) + ';')
            if f.name in m.decls and f.name in E.called: called_decls.append(f.name)
            if f.name in m.funcs and f not in funcs and roots:
                raise NotImplementedError('function referenced but not emitted: ' + f.name)
    # declared-only libstdc++ functions whose effect is irrelevant here: empty bodies (listed in the .json as assumptions)
    noop_bodies = []
    for n in list(called_decls):
        if NOOP_EXTERN.fullmatch(n):
            f = m.decls[n]
            ps = ', '.join('%s p%d' % (E.ct(t), i) for i, (nm, t) in enumerate(f.params)) or 'void'
            rt = E.ct(f.ret)
            noop_bodies.append('%s %s(%s) { %s} /* no-op stub */' % (rt, E.gname(n), ps, '' if rt == 'void' else 'return (%s)0; ' % rt))
            called_decls.remove(n); E.noop_stubs.append(n)
    hdr = ['#ifndef IR2C_GEN_H', '#define IR2C_GEN_H', '#include <stdint.h>', '#include <stddef.h>', '#include "ir_prelude.h"', '']
    hdr += E.struct_order
    hdr += ['']
    hdr += protos
    hdr += ['']
    hdr += gx
    hdr += ['#endif', '']
    body = ['#include "%s"' % '@HEADER@', '']
    body += gl
    body += ['']
    body += bodies
    body += noop_bodies
    info = {'functions': [f.name for f in funcs], 'called_declared_only': sorted(called_decls),
            'external_globals': sorted(E.ext_globals), 'throw_sites': E.throw_sites,
            'asm_sites': E.asm_sites, 'noop_stubs': sorted(E.noop_stubs)}
    return '\n'.join(hdr) + '\n', '\n'.join(body) + '\n', info

def emit_func(E, f):
    L = []
    f.cast_origin = {}
    decls = []
    declared = set(f.lname(p) for p, _ in f.params)
    def declare(name, ty):
        c = f.lname(name)
        if c not in declared:
            declared.add(c); decls.append('  %s %s;' % (E.ct(ty), c))
        return c
    # collect phis
    phis = collections.defaultdict(list)   # pred label -> [(phi result c name, value)]
    for lab, bl in f.blocks.items():
        for ins in bl:
            if ins.op == 'phi':
                for v, pl in ins.inc:
                    phis[(pl, lab)].append((ins, v))
    allocas = {}
    # promotable allocas: only used as the pointer operand of load/store
    cand = {}
    for lab, bl in f.blocks.items():
        for ins in bl:
            if ins.op == 'alloca' and ins.count is None:
                cand[ins.res] = ins
    if cand:
        for lab, bl in f.blocks.items():
            for ins in bl:
                names = set(re.findall(r'%("(?:[^"\\]|\\.)*"|[-a-zA-Z$._0-9]+)', ins.line))
                names = set(unq(n) for n in names)
                hit = names & set(cand)
                if not hit: continue
                if ins.op == 'alloca': continue
                for h in hit:
                    ok = False
                    if ins.op == 'load' and ins.ptr.k == 'local' and ins.ptr.name == h: ok = True
                    if ins.op == 'store' and ins.ptr.k == 'local' and ins.ptr.name == h and not (ins.val.k == 'local' and ins.val.name == h): ok = True
                    if not ok: cand.pop(h, None)
    f.promoted = set(cand)
    labname = lambda l: 'L_' + san(l)
    def edge(src, dst):
        """statements to run on edge src->dst then goto"""
        ps = phis.get((src, dst), [])
        s = ''
        if ps:
            # parallel copy through temporaries
            for n, (ins, v) in enumerate(ps):
                s += '%s_phi = %s; ' % (f.lname(ins.res), E.val(v, f))
        return s + 'goto %s;' % labname(dst)
    first = True
    for lab, bl in f.blocks.items():
        realname = lab
        if lab == '__entry':
            # unnamed entry: number is count of params that are unnamed... predecessors reference it rarely (never for entry)
            pass
        L.append('%s: ;' % labname(lab))
        for ins in bl:
            op = ins.op
            r = None
            if ins.res is not None and op != 'alloca':
                pass
            if op == 'alloca' and ins.res in f.promoted:
                c = f.lname(ins.res)
                declared.add(c); decls.append('  %s %s;' % (E.ct(ins.ty), c))
            elif op == 'load' and ins.ptr.k == 'local' and ins.ptr.name in f.promoted:
                c = declare(ins.res, ins.ty)
                L.append('  %s = %s;' % (c, f.lname(ins.ptr.name)))
            elif op == 'store' and ins.ptr.k == 'local' and ins.ptr.name in f.promoted:
                L.append('  %s = %s;' % (f.lname(ins.ptr.name), E.val(ins.val, f)))
            elif op == 'alloca':
                c = declare(ins.res, T('ptr', to=ins.ty))
                mem = c + '_mem'
                if ins.count is not None:
                    raise NotImplementedError("dynamic alloca")
                decls.append('  %s %s;' % (E.ct(ins.ty), mem))
                L.append('  %s = &%s;' % (c, mem))
            elif op == 'load':
                c = declare(ins.res, ins.ty)
                L.append('  %s = *%s;' % (c, E.val(ins.ptr, f)))
            elif op == 'store':
                L.append('  *%s = %s;' % (E.val(ins.ptr, f), E.val(ins.val, f)))
            elif op == 'getelementptr':
                rt = gep_result_type(E, ins.base_ty, ins.ops)
                c = declare(ins.res, T('ptr', to=rt))
                L.append('  %s = %s;' % (c, E.gep(ins.base_ty, ins.ops, f)))
            elif op in CAST_OPS:
                c = declare(ins.res, ins.ty)
                L.append('  %s = %s;' % (c, E.cast(op, ins.x, ins.ty, f)))
                if op == 'bitcast' and ins.x.ty.k == 'ptr' and ins.ty.k == 'ptr':
                    f.cast_origin[ins.res] = ins.x.ty.to
            elif op in BIN_OPS:
                c = declare(ins.res, ins.ty)
                L.append('  %s = %s;' % (c, E.binop(op, ins.ty, ins.a, ins.b, f, ins.flags)))
            elif op == 'fneg':
                c = declare(ins.res, ins.ty)
                L.append('  %s = -%s;' % (c, E.val(ins.a, f)))
            elif op == 'icmp':
                c = declare(ins.res, T('int', bits=1))
                A = E.val(ins.a, f); B = E.val(ins.b, f); p = ins.pred
                if p in ('eq', 'ne'):
                    L.append('  %s = (%s %s %s);' % (c, A, '==' if p == 'eq' else '!=', B))
                else:
                    sym = {'gt': '>', 'ge': '>=', 'lt': '<', 'le': '<='}[p[1:]]
                    if ins.ty.k == 'ptr':
                        L.append('  %s = (%s %s %s);' % (c, A, sym, B))
                    elif p[0] == 'u':
                        L.append('  %s = (%s %s %s);' % (c, A, sym, B))
                    else:
                        s = E.sct(ins.ty)
                        L.append('  %s = ((%s)%s %s (%s)%s);' % (c, s, A, sym, s, B))
            elif op == 'fcmp':
                c = declare(ins.res, T('int', bits=1))
                A = E.val(ins.a, f); B = E.val(ins.b, f); p = ins.pred
                base = {'eq': '==', 'ne': '!=', 'gt': '>', 'ge': '>=', 'lt': '<', 'le': '<='}
                if p == 'true': e = '1'
                elif p == 'false': e = '0'
                elif p == 'ord': e = '(%s == %s && %s == %s)' % (A, A, B, B)
                elif p == 'uno': e = '(%s != %s || %s != %s)' % (A, A, B, B)
                elif p[0] == 'o':
                    e = '(%s %s %s)' % (A, base[p[1:]], B) if p != 'one' else '(%s == %s && %s == %s && %s != %s)' % (A, A, B, B, A, B)
                else:
                    e = '(%s != %s || %s != %s || %s %s %s)' % (A, A, B, B, A, base[p[1:]], B)
                L.append('  %s = %s;' % (c, e))
            elif op == 'select':
                c = declare(ins.res, ins.a.ty)
                L.append('  %s = %s ? %s : %s;' % (c, E.val(ins.c, f), E.val(ins.a, f), E.val(ins.b, f)))
            elif op == 'phi':
                c = declare(ins.res, ins.ty)
                decls.append('  %s %s_phi;' % (E.ct(ins.ty), c))
                L.append('  %s = %s_phi;' % (c, c))
            elif op == 'br':
                if ins.cond is None:
                    L.append('  ' + edge(lab, ins.t))
                else:
                    L.append('  if (%s) { %s } else { %s }' % (E.val(ins.cond, f), edge(lab, ins.t), edge(lab, ins.f)))
            elif op == 'switch':
                x = E.val(ins.x, f)
                for cv, tl in ins.cases:
                    L.append('  if (%s == %s) { %s }' % (x, E.val(cv, f), edge(lab, tl)))
                L.append('  ' + edge(lab, ins.default))
            elif op == 'ret':
                L.append('  return%s;' % ('' if ins.val is None else ' ' + E.val(ins.val, f)))
            elif op in ('call', 'invoke'):
                emit_call(E, f, ins, L, declare)
                if op == 'invoke':
                    L.append('  ' + edge(lab, ins.normal))
            elif op == 'landingpad':
                c = declare(ins.res, ins.ty)
                L.append('  __CPROVER_assume(0); /* landingpad: exceptional edge not modelled */')
            elif op == 'resume':
                L.append('  __CPROVER_assume(0); /* resume */')
            elif op == 'unreachable':
                L.append('  __CPROVER_assume(0); /* unreachable */')
            elif op == 'extractvalue':
                rt = agg_type(E, ins.agg.ty, ins.idx)
                c = declare(ins.res, rt)
                L.append('  %s = %s%s;' % (c, E.val(ins.agg, f), agg_path(E, ins.agg.ty, ins.idx)))
            elif op == 'insertvalue':
                c = declare(ins.res, ins.agg.ty)
                L.append('  %s = %s; %s%s = %s;' % (c, E.val(ins.agg, f), c, agg_path(E, ins.agg.ty, ins.idx), E.val(ins.val, f)))
            elif op == 'atomicrmw':
                ty = ins.val.ty
                c = declare(ins.res, ty)
                p = E.val(ins.ptr, f); v = E.val(ins.val, f)
                opx = {'add': 'add', 'sub': 'sub', 'and': 'and', 'or': 'or', 'xor': 'xor'}.get(ins.rmw)
                L.append('  %s = *%s;' % (c, p))
                if ins.rmw == 'xchg':
                    L.append('  *%s = %s;' % (p, v))
                elif opx:
                    L.append('  *%s = %s;' % (p, E.binop(opx, ty, V('local', name=ins.res, ty=ty), ins.val, f, [])))
                else:
                    raise NotImplementedError('atomicrmw ' + ins.rmw)
            elif op == 'cmpxchg':
                ty = ins.cmp.ty
                rt = T('struct', els=[ty, T('int', bits=1)], packed=False)
                c = declare(ins.res, rt)
                p = E.val(ins.ptr, f)
                L.append('  %s.f0 = *%s; %s.f1 = (%s.f0 == %s); if (%s.f1) *%s = %s;' % (c, p, c, c, E.val(ins.cmp, f), c, p, E.val(ins.new, f)))
            elif op == 'fence':
                L.append('  /* fence */')
            elif op == 'freeze':
                c = declare(ins.res, ins.x.ty)
                L.append('  %s = %s;' % (c, E.val(ins.x, f)))
            else:
                raise NotImplementedError(op)
    hdr = E.proto(f) + '\n{\n'
    return hdr + '\n'.join(decls) + '\n' + '\n'.join(L) + '\n}\n'

def gep_result_type(E, base_ty, ops):
    t = base_ty
    for o in ops[2:]:
        rt = E.resolve(t)
        if rt.k == 'struct': t = rt.els[o.val]
        elif rt.k == 'arr': t = rt.el
        else: raise NotImplementedError("gep type")
    return t

def agg_type(E, t, idx):
    for i in idx:
        rt = E.resolve(t)
        t = rt.els[i] if rt.k == 'struct' else rt.el
    return t

def agg_path(E, t, idx):
    s = ''
    for i in idx:
        rt = E.resolve(t)
        if rt.k == 'struct':
            s += '.f%d' % i; t = rt.els[i]
        else:
            s += '.a[%d]' % i; t = rt.el
    return s

def emit_call(E, f, ins, L, declare):
    cal = ins.callee
    args = [a for a in ins.args]
    if cal.k == 'asm':
        A = [E.val(a, f) for a in args]
        res = declare(ins.res, ins.ty) if ins.res is not None else None
        t = cal.tmpl
        b = ins.ty.bits if ins.ty.k == 'int' else 0
        ASM = {'rorl %cl,$0': ('r', 32), 'roll %cl,$0': ('l', 32), 'rorq %cl,$0': ('r', 64), 'rolq %cl,$0': ('l', 64)}
        if t not in ASM: raise NotImplementedError("inline asm " + t)
        E.asm_sites += 1
        d, w = ASM[t]
        ct = E.ct(ins.ty)
        sh = '(%s & %d)' % (A[1], w - 1)
        if d == 'l':
            L.append('  %s = (%s)((%s << %s) | (%s >> ((%d - %s) & %d))); /* asm %s (trusted semantics) */' % (res, ct, A[0], sh, A[0], w, sh, w - 1, t))
        else:
            L.append('  %s = (%s)((%s >> %s) | (%s << ((%d - %s) & %d))); /* asm %s (trusted semantics) */' % (res, ct, A[0], sh, A[0], w, sh, w - 1, t))
        return
    name = cal.name if cal.k == 'global' else None
    res = None
    if ins.res is not None and ins.ty.k != 'void':
        res = declare(ins.res, ins.ty)
    def out(expr):
        L.append('  %s%s;' % ((res + ' = ') if res else '', expr))
    if name and name.startswith('llvm.'):
        if name.startswith('llvm.dbg.') or name.startswith('llvm.lifetime.') or name.startswith('llvm.experimental.noalias') \
           or name.startswith('llvm.assume') or name.startswith('llvm.invariant'):
            return
        A = [E.val(a, f) if a is not None else None for a in args]
        if name.startswith('llvm.memcpy.'):
            # constant-size copy between two pointers that were bit-cast from the same object type: typed assignment
            # (identical effect when the size equals sizeof(T); keeps doubles/pointers word-level for the solver)
            d, s_, n = args[0], args[1], args[2]
            def origin(v):
                if v.k == 'local': return f.cast_origin.get(v.name)
                if v.k == 'ccast' and v.op == 'bitcast' and v.x.ty is not None and v.x.ty.k == 'ptr': return v.x.ty.to
                return None
            td, ts = origin(d), origin(s_)
            if n.k == 'int' and td is not None and ts is not None and tstr(td) == tstr(ts) and td.k in ('named', 'struct', 'arr', 'int', 'double', 'float', 'ptr'):
                ct = E.ct(td)
                L.append('  if (%s == sizeof(%s)) *(%s*)%s = *(%s*)%s; else ir_memcpy((uint8_t*)%s, (uint8_t*)%s, %s);' % (A[2], ct, ct, A[0], ct, A[1], A[0], A[1], A[2])); return
            L.append('  ir_memcpy((uint8_t*)%s, (uint8_t*)%s, %s);' % (A[0], A[1], A[2])); return
        if name.startswith('llvm.memmove.'):
            # both pointers were bit-cast from pointers to the same scalar/pointer element type (std::copy of trivially
            # copyable elements): element-wise loops in that type instead of byte loops (same effect when the length is a
            # multiple of the element size, which is asserted); keeps words and pointers whole for the solver
            d, s_, n = args[0], args[1], args[2]
            def origin(v):
                if v.k == 'local': return f.cast_origin.get(v.name)
                if v.k == 'ccast' and v.op == 'bitcast' and v.x.ty is not None and v.x.ty.k == 'ptr': return v.x.ty.to
                return None
            td, ts = origin(d), origin(s_)
            if td is not None and ts is not None and tstr(td) == tstr(ts) and td.k in ('int', 'ptr', 'double', 'float', 'named', 'struct') and not (td.k == 'int' and td.bits == 8):
                ct = E.ct(td)
                f.mm_count = getattr(f, 'mm_count', 0) + 1
                k = f.mm_count
                L.append('  { %s* d%d_ = (%s*)%s; %s* s%d_ = (%s*)%s; uint64_t n%d_ = %s / sizeof(%s); uint64_t i%d_;' % (ct, k, ct, A[0], ct, k, ct, A[1], k, A[2], ct, k))
                L.append('    __CPROVER_assert(%s %% sizeof(%s) == 0, "memmove length is a multiple of the element size");' % (A[2], ct))
                L.append('    if ((uintptr_t)d%d_ <= (uintptr_t)s%d_) { for (i%d_ = 0; i%d_ < n%d_; i%d_++) d%d_[i%d_] = s%d_[i%d_]; }' % (k, k, k, k, k, k, k, k, k, k))
                L.append('    else { for (i%d_ = n%d_; i%d_ > 0; i%d_--) d%d_[i%d_ - 1] = s%d_[i%d_ - 1]; } }' % (k, k, k, k, k, k, k, k))
                return
            L.append('  ir_memmove((uint8_t*)%s, (uint8_t*)%s, %s);' % (A[0], A[1], A[2])); return
        if name.startswith('llvm.memset.'): L.append('  ir_memset((uint8_t*)%s, %s, %s);' % (A[0], A[1], A[2])); return
        if name == 'llvm.trap': L.append('  __CPROVER_assert(0, "llvm.trap"); __CPROVER_assume(0);'); return
        if name.startswith('llvm.expect.'): out(A[0]); return
        if name.startswith('llvm.is.constant.'): out('0'); return   # __builtin_constant_p at -O0: false
        if name.startswith('llvm.ctlz.'):
            b = ins.ty.bits
            fnn = '__builtin_clz' if b <= 32 else '__builtin_clzll'
            adj = (' - %d' % (32 - b)) if b < 32 else ''
            out('(%s == 0 ? %d : (%s)(%s(%s)%s))' % (A[0], b, E.ct(ins.ty), fnn, A[0], adj)); return
        if name.startswith('llvm.cttz.'):
            b = ins.ty.bits
            fnn = '__builtin_ctz' if b <= 32 else '__builtin_ctzll'
            out('(%s == 0 ? %d : (%s)%s(%s))' % (A[0], b, E.ct(ins.ty), fnn, A[0])); return
        if name.startswith('llvm.ctpop.'):
            b = ins.ty.bits
            out('(%s)%s(%s)' % (E.ct(ins.ty), '__builtin_popcount' if b <= 32 else '__builtin_popcountll', A[0])); return
        if name.startswith('llvm.bswap.'):
            b = ins.ty.bits
            out('__builtin_bswap%d(%s)' % (b, A[0])); return
        if re.match(r'llvm\.(umul|uadd|usub)\.with\.overflow\.', name):
            b = args[0].ty.bits; k = name.split('.')[1]
            c = res
            bi = {'umul': '__builtin_mul_overflow', 'uadd': '__builtin_add_overflow', 'usub': '__builtin_sub_overflow'}[k]
            L.append('  { %s t_; %s.f1 = %s(%s, %s, &t_); %s.f0 = t_; }' % (E.ct(args[0].ty), c, bi, A[0], A[1], c)); return
        if name.startswith('llvm.fabs.'): out('__builtin_fabs(%s)' % A[0]); return
        if name.startswith('llvm.sqrt.'): out('__builtin_sqrt(%s)' % A[0]); return
        if name.startswith('llvm.fmuladd.'): out('(%s * %s + %s)' % (A[0], A[1], A[2])); return
        if name in ('llvm.stacksave', 'llvm.stackrestore'):
            if res: out('0')
            return
        raise NotImplementedError("intrinsic " + name)
    A = [E.val(a, f) for a in args]
    if name == '__assert_fail':
        L.append('  __CPROVER_assert(0, "tlx assert() holds"); __CPROVER_assume(0);'); return
    if name in ('abort', '_ZSt9terminatev', '__clang_call_terminate', '__cxa_pure_virtual'):
        L.append('  __CPROVER_assert(0, "abort/terminate not reached"); __CPROVER_assume(0);'); return
    if name and name.startswith('_ZN3tlx16die_with_message'):
        L.append('  __CPROVER_assert(0, "tlx die() not reached"); __CPROVER_assume(0);'); return
    if name == '__cxa_allocate_exception':
        out('ir_alloc_exception(%s)' % A[0]); return
    if name == '__cxa_free_exception' or name == '__cxa_end_catch':
        return
    if name == '__cxa_begin_catch':
        out(A[0]); return
    if name == '__cxa_rethrow':
        L.append('  __CPROVER_assume(0); /* rethrow inside a handler: handlers are unreachable (exception edges dropped) */'); return
    if name == '__cxa_throw':
        ti = args[1]
        tn = None
        x = ti
        while x.k == 'ccast': x = x.x
        if x.k == 'global': tn = x.name
        E.throw_sites += 1
        L.append('  ir_throw_event(%d); __CPROVER_assume(0); /* throw %s */' % (THROW_KINDS.get(tn, 99), tn)); return
    if name and name.startswith('_ZSt') and '__throw_' in name:
        kind = 99
        for pat, kd in STD_THROW_HELPERS:
            if pat in name: kind = kd; break
        E.throw_sites += 1
        L.append('  ir_throw_event(%d); __CPROVER_assume(0); /* %s */' % (kind, name)); return
    if name in LIBC_RENAME and name in E.m.decls:
        out('%s(%s)' % (LIBC_RENAME[name], ', '.join(A))); return
    if name:
        E.extern_used.add(name)
        E.called.add(name)
        callee = E.gname(name)
    else:
        callee = '(%s)' % E.val(cal, f)
    out('%s(%s)' % (callee, ', '.join(A)))

# std::allocator<T> constructors/destructors (stateless) and exception-object constructors/destructors (the thrown
# object's content is never inspected; the throw itself is the observable event)
NOOP_EXTERN = re.compile(r'_ZNSaI\w+EC[12]E(v|RKS_)|_ZNSaI\w+ED[12]Ev|_ZNSt\d+(out_of_range|range_error|runtime_error|invalid_argument|length_error|logic_error|overflow_error|bad_alloc)(C[12]E(PKc|RKNSt7__cxx1112basic_stringIcSt11char_traitsIcESaIcEEE)|D[012]Ev)')

# libc byte/string functions that are only declared in the IR: own loop models in tools/ir_prelude.c
LIBC_RENAME = {'memcmp': 'ir_memcmp', 'bcmp': 'ir_memcmp', 'strncmp': 'ir_strncmp', 'strcmp': 'ir_strcmp', 'strlen': 'ir_strlen', 'memchr': 'ir_memchr'}

# exception kinds (observable "throw event", see DESIGN 2.2); 99 = any other type
THROW_KINDS = {'_ZTISt12out_of_range': 1, '_ZTISt11range_error': 2, '_ZTISt13runtime_error': 3,
               '_ZTISt16invalid_argument': 4, '_ZTISt12length_error': 5, '_ZTISt9bad_alloc': 6,
               '_ZTISt11logic_error': 7, '_ZTISt14overflow_error': 8}
STD_THROW_HELPERS = [('__throw_out_of_range', 1), ('__throw_range_error', 2), ('__throw_runtime_error', 3),
                     ('__throw_invalid_argument', 4), ('__throw_length_error', 5), ('__throw_bad_alloc', 6),
                     ('__throw_bad_array_new_length', 6), ('__throw_logic_error', 7), ('__throw_overflow_error', 8)]

def main():
    import json, os
    src = open(sys.argv[1]).read()
    base = sys.argv[2]
    roots = []
    if '--roots' in sys.argv:
        roots = sys.argv[sys.argv.index('--roots') + 1].split(',')
    m = parse_module(src)
    if '--root-prefix' in sys.argv:
        pf = sys.argv[sys.argv.index('--root-prefix') + 1].split(',')
        roots += [n for n in m.funcs if any(n.startswith(p) for p in pf)]
    h, c, info = emit_module(m, roots or None)
    c = c.replace('@HEADER@', os.path.basename(base) + '.h')
    open(base + '.h', 'w').write(h)
    open(base + '.c', 'w').write(c)
    json.dump(info, open(base + '.json', 'w'), indent=1)

if __name__ == '__main__':
    try:
        main()
    except (NotImplementedError, SyntaxError, KeyError) as e:
        sys.stderr.write('ir2c: unsupported input: %r\n' % (e,))
        sys.exit(2)
