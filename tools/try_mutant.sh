#!/bin/bash
# usage: try_mutant.sh <property> <patch.diff> [<job regex>]   -- apply a seeded change to /repo, run the check, undo it
set -u
P=$1; D=$2; R=${3:-}
cd /repo && git apply --check "$D" || { echo "patch does not apply"; exit 3; }
git apply "$D"
cd /verif
if [ -n "$R" ]; then ./check $P --only "$R" > /tmp/w/mut_$P.log 2>&1; else ./check $P > /tmp/w/mut_$P.log 2>&1; fi
rc=$?
git -C /repo checkout -- .
echo "exit=$rc"; grep -c "^VIOLATION" /tmp/w/mut_$P.log; grep "^VIOLATION\|^UNDECIDED\|^KNOWN\|REPLAY:" /tmp/w/mut_$P.log | cut -c1-220 | head -8
