#!/bin/bash
# usage: confirm_mutant.sh <worktree> <mutant dir> "<test source(s) relative to worktree>" : confirm a seeded change myself:
# demo passes on the original, fails with the change; the component's existing tests still pass with the change.
WT=$1; M=$2; TESTS=$3
cd $WT && git checkout -q -- . || exit 9
SAN=""
g++ -std=c++17 -O1 -w $SAN -I$WT $M/demo.cpp $WT/tlx/die/core.cpp $EXTRA_SRC -o /tmp/w/demo_orig -lpthread 2>/tmp/w/demo_err || { echo "demo does not compile on original: $(head -3 /tmp/w/demo_err)"; }
/tmp/w/demo_orig > /dev/null 2>&1; r0=$?
git apply $M/patch.diff || { echo "patch does not apply"; exit 9; }
g++ -std=c++17 -O1 -w $SAN -I$WT $M/demo.cpp $WT/tlx/die/core.cpp $EXTRA_SRC -o /tmp/w/demo_mut -lpthread 2>/dev/null
timeout 60 /tmp/w/demo_mut > /dev/null 2>&1; r1=$?
tr="ok"
for t in $TESTS; do
  g++ -std=c++17 -O1 -w -I$WT $WT/$t $WT/tlx/die/core.cpp $EXTRA_SRC -o /tmp/w/test_mut -lpthread 2>/tmp/w/test_err || { tr="test $t does not compile: $(head -2 /tmp/w/test_err)"; break; }
  timeout 300 /tmp/w/test_mut > /dev/null 2>&1 || { tr="test $t FAILS with the change"; break; }
done
git checkout -q -- .
echo "demo original exit=$r0, with change exit=$r1, existing tests with change: $tr"
