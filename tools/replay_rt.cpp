// replay_rt.cpp -- runtime of a native replay: runs one harness on the real (g++-compiled) tlx code.
// exit 0: the real code satisfies the contract on this input;  exit 1: violation reproduced;
// exit 3: the input does not satisfy the contract's precondition (replay not meaningful).
#include <cstdio>
#include <cstdlib>
#include <cstring>
#include <cstdint>
#include <stdexcept>
#include <new>
extern "C" {
int ir_throw_allowed = 0;
uint64_t ir_live_allocs = 0;
void RP_HARNESS(void);
void rp_pre_fail(const char* fn, int k, const char* text) { printf("REPLAY: precondition #%d of %s not met by this input: %s\n", k, fn, text); fflush(stdout); exit(3); }
void rp_ens_fail(const char* fn, int k, const char* text) { printf("REPLAY: REPRODUCED on the real code: ensures clause #%d of %s is false: %s\n", k, fn, text); fflush(stdout); _Exit(1); }
void rp_assume_fail(const char* text) { printf("REPLAY: harness assumption not met by this input: %s\n", text); fflush(stdout); exit(3); }
void rp_assert_fail(const char* msg) { printf("REPLAY: REPRODUCED on the real code: assertion fails: %s\n", msg); fflush(stdout); _Exit(1); }
void rp_end(void) {}
double rp_f64(uint64_t bits) { double d; memcpy(&d, &bits, 8); return d; }
float rp_f32(uint32_t bits) { float d; memcpy(&d, &bits, 4); return d; }
uint8_t* ir_memcpy(uint8_t* d, uint8_t* s, uint64_t n) { return (uint8_t*)memcpy(d, s, n); }
uint8_t* ir_memmove(uint8_t* d, uint8_t* s, uint64_t n) { return (uint8_t*)memmove(d, s, n); }
uint8_t* ir_memset(uint8_t* d, uint8_t c, uint64_t n) { return (uint8_t*)memset(d, c, n); }
void ir_throw_event(int) {}
uint32_t ir_memcmp(uint8_t* a, uint8_t* b, uint64_t n) { return (uint32_t)memcmp(a, b, n); }
uint32_t ir_strncmp(uint8_t* a, uint8_t* b, uint64_t n) { return (uint32_t)strncmp((char*)a, (char*)b, n); }
uint32_t ir_strcmp(uint8_t* a, uint8_t* b) { return (uint32_t)strcmp((char*)a, (char*)b); }
uint64_t ir_strlen(uint8_t* s) { return strlen((char*)s); }
uint8_t* ir_memchr(uint8_t* s, uint32_t c, uint64_t n) { return (uint8_t*)memchr(s, c, n); }
}
void* operator new(size_t n) { void* p = malloc(n ? n : 1); if (!p) throw std::bad_alloc(); ir_live_allocs++; return p; }
void* operator new[](size_t n) { void* p = malloc(n ? n : 1); if (!p) throw std::bad_alloc(); ir_live_allocs++; return p; }
void operator delete(void* p) noexcept { if (p) ir_live_allocs--; free(p); }
void operator delete[](void* p) noexcept { if (p) ir_live_allocs--; free(p); }
void operator delete(void* p, size_t) noexcept { if (p) ir_live_allocs--; free(p); }
void operator delete[](void* p, size_t) noexcept { if (p) ir_live_allocs--; free(p); }
static int thrown(int kind, const char* what)
{
  if (kind == ir_throw_allowed) { printf("REPLAY: exception of kind %d thrown as the contract expects (%s)\n", kind, what); return 0; }
  printf("REPLAY: REPRODUCED on the real code: exception of kind %d thrown (%s) but the contract allows kind %d\n", kind, what, ir_throw_allowed);
  return 1;
}
int main()
{
  try { RP_HARNESS(); }
  catch (std::out_of_range& e) { return thrown(1, e.what()); }
  catch (std::range_error& e) { return thrown(2, e.what()); }
  catch (std::overflow_error& e) { return thrown(8, e.what()); }
  catch (std::runtime_error& e) { return thrown(3, e.what()); }
  catch (std::invalid_argument& e) { return thrown(4, e.what()); }
  catch (std::length_error& e) { return thrown(5, e.what()); }
  catch (std::bad_alloc& e) { return thrown(6, e.what()); }
  catch (std::logic_error& e) { return thrown(7, e.what()); }
  catch (...) { return thrown(99, "unknown"); }
  printf("REPLAY: the real code satisfies the contract on this input\n");
  return 0;
}
