#!/usr/bin/env python3
"""vlib.py -- job runner for the contract checks (see DESIGN.md section 2).

pipeline per job:
  shim.cpp --clang++ -O0 -emit-llvm--> shim.ll --ir2c--> gen.{h,c} --goto-cc--> gen.gb        (once per shim+defines)
  contract.c (+ -D defines) --goto-cc--> linked with gen.gb and ir_prelude  (entry = harness)
  [goto-instrument --unwind N --unwinding-assertions]   (before dfcc, see DESIGN 2.3)
  goto-instrument --dfcc <harness> --enforce-contract ... --replace-call-with-contract ... [--apply-loop-contracts]
  cbmc --json-ui ...   -> every obligation must be SUCCESS, the canary must FAIL
exit codes of a check: 0 held, 1 VIOLATION (or only KNOWN-FINDINGs -> 0), 2 undecided (tool limit / extraction break)
"""
import os, sys, json, re, subprocess, time, shutil, hashlib, threading, concurrent.futures as cf

VERIF = os.path.dirname(os.path.dirname(os.path.abspath(__file__)))
REPO = os.environ.get('VERIF_REPO', '/repo')
TOOLS = os.path.join(VERIF, 'tools')
NCPU = int(os.environ.get('VERIF_JOBS', '0')) or (os.cpu_count() or 4)
MEM_KB = int(os.environ.get('VERIF_MEM_KB', str(10 * 1024 * 1024)))

CLANG_FLAGS = ['-std=c++17', '-O0', '-DNDEBUG', '-fno-access-control', '-fno-discard-value-names', '-Xclang', '-disable-O0-optnone',
               '-S', '-emit-llvm', '-I' + REPO, '-I' + os.path.join(VERIF, 'shims'), '-DTLX_VERIF_EXTRACT']

TRUSTED_BASE = [
    'clang 14 front end and -O0 code generation as a faithful lowering of the tlx sources (library ships built by g++ 12)',
    'tools/ir2c.py: LLVM-IR-to-C translation (exception edges dropped: invoke = call; atomics executed sequentially)',
    'CBMC 6.11 symbolic execution + goto-instrument --dfcc contract instrumentation + the SAT/SMT back end named per job',
    'tools/ir_prelude.c: own memcpy/memmove/memset loops, operator new = malloc assumed non-null, delete = free',
    'machine integers are bit-vectors (wrap-around is modelled, never treated as mathematical integers)',
]


class Undecided(Exception):
    pass


class MemBudget:
    """admission control: the sum of the declared peak memory of the running solver processes stays under the budget
    (VERIF_MEM_BUDGET_GB, default 75% of MemAvailable), so that a parallel run is never decided by the OOM killer"""
    def __init__(self):
        try: avail = int([l for l in open('/proc/meminfo') if l.startswith('MemAvailable')][0].split()[1]) / 1048576.0
        except Exception: avail = 16.0
        self.total = float(os.environ.get('VERIF_MEM_BUDGET_GB', '0')) or max(4.0, avail * 0.75)
        self.used = 0.0; self.cv = threading.Condition()
    def take(self, gb):
        gb = min(float(gb), self.total); mb = self
        class _Ctx:
            def __enter__(s):
                with mb.cv:
                    while mb.used + gb > mb.total + 1e-9: mb.cv.wait()
                    mb.used += gb
            def __exit__(s, *a):
                with mb.cv: mb.used -= gb; mb.cv.notify_all()
        return _Ctx()
MEM_BUDGET = MemBudget()


class Job:
    def __init__(self, name, shim, contract, harness, enforce, replace=(), defines=(), shim_defines=(),
                 unwind=None, unwindset=(), loop_contracts=False, backend='sat', timeout=300, label='complete',
                 functions=(), tier='quick', cbmc_flags=(), clause=None, what='', known=(), no_canary=False,
                 extra_sources=(), object_bits=None, ignore=None, ignore_why='', resolve=None, replace_calls=(), witness_defines=(), include_dirs=(), resolve_types=None, mode='dfcc', no_replay=False, mem_gb=1):
        self.name = name; self.shim = shim; self.contract = contract; self.harness = harness
        self.enforce = list(enforce) if isinstance(enforce, (list, tuple)) else [enforce]
        self.replace = list(replace); self.defines = list(defines); self.shim_defines = list(shim_defines)
        self.unwind = unwind; self.unwindset = list(unwindset); self.loop_contracts = loop_contracts
        self.backend = backend; self.timeout = timeout; self.label = label
        self.functions = list(functions); self.tier = tier; self.cbmc_flags = list(cbmc_flags)
        self.what = what; self.known = list(known); self.no_canary = no_canary
        self.extra_sources = list(extra_sources); self.object_bits = object_bits
        self.ignore = ignore; self.ignore_why = ignore_why; self.unreachable = 0; self.ignored = []
        self.resolve = dict(resolve or {}); self.replace_calls = list(replace_calls); self.witness_defines = list(witness_defines); self.include_dirs = list(include_dirs); self.resolve_types = dict(resolve_types or {}); self.mode = mode; self.no_replay = no_replay
        self.mem_gb = mem_gb     # expected peak memory of the solver run: jobs are admitted against a machine-wide budget
        # result fields
        self.status = None; self.obligations = 0; self.discharged = 0; self.failed = []; self.solver_s = 0.0
        self.wall_s = 0.0; self.detail = ''; self.canary_ok = None; self.sample = None


def sh(cmd, timeout=None, cwd=None, mem=True, stdout_path=None, mem_kb=None):
    """run a command under ulimit -v; returns (rc, out, err); rc 124 on timeout"""
    pre = 'ulimit -v %d; ' % max(MEM_KB, mem_kb or 0) if mem else ''
    q = ' '.join("'" + c.replace("'", "'\\''") + "'" for c in cmd)
    full = pre + 'exec ' + q
    try:
        if stdout_path:
            with open(stdout_path, 'wb') as fo:
                p = subprocess.run(['bash', '-c', full], stdout=fo, stderr=subprocess.PIPE, timeout=timeout, cwd=cwd)
            return p.returncode, '', p.stderr.decode('utf8', 'replace')
        p = subprocess.run(['bash', '-c', full], stdout=subprocess.PIPE, stderr=subprocess.PIPE, timeout=timeout, cwd=cwd)
        return p.returncode, p.stdout.decode('utf8', 'replace'), p.stderr.decode('utf8', 'replace')
    except subprocess.TimeoutExpired:
        # kill whole process group is not needed: exec replaces bash
        return 124, '', 'timeout after %ss' % timeout


_shim_lock = threading.Lock()
_shim_done = {}


def shim_key(shim, defines):
    return shim + ('-' + hashlib.md5(' '.join(defines).encode()).hexdigest()[:8] if defines else '')


def build_shim(bdir, shim, defines):
    """clang -> ir2c -> goto-cc.  Returns dict(dir, info).  Raises Undecided on extraction break."""
    key = shim_key(shim, defines)
    with _shim_lock:
        ent = _shim_done.get((bdir, key))
        if ent is None:
            ent = {'lock': threading.Lock(), 'res': None, 'err': None}
            _shim_done[(bdir, key)] = ent
    with ent['lock']:
        if ent['res'] is not None: return ent['res']
        if ent['err'] is not None: raise Undecided(ent['err'])
        try:
            d = os.path.join(bdir, 'shim-' + key)
            os.makedirs(d, exist_ok=True)
            src = os.path.join(VERIF, 'shims', shim + '.cpp')
            ll = os.path.join(d, 'shim.ll')
            t0 = time.time()
            rc, o, e = sh(['clang++'] + CLANG_FLAGS + ['-D' + x for x in defines] + [src, '-o', ll], timeout=600)
            if rc != 0: raise Undecided('clang++ failed on shim %s (does /repo still compile?):\n%s' % (shim, e[-3000:]))
            rc, o, e = sh([sys.executable, os.path.join(TOOLS, 'ir2c.py'), ll, os.path.join(d, 'gen'), '--root-prefix', 'w_'], timeout=600)
            if rc != 0: raise Undecided('ir2c failed on shim %s: %s' % (shim, e[-3000:]))
            info = json.load(open(os.path.join(d, 'gen.json')))
            rc, o, e = sh(['goto-cc', '-I', TOOLS, '-c', os.path.join(d, 'gen.c'), '-o', os.path.join(d, 'gen.gb')], timeout=600)
            if rc != 0: raise Undecided('goto-cc failed on generated C of shim %s: %s' % (shim, (o + e)[-3000:]))
            rc, o, e = sh(['goto-cc', '-I', TOOLS, '-c', os.path.join(TOOLS, 'ir_prelude.c'), '-o', os.path.join(d, 'prelude.gb')], timeout=600)
            if rc != 0: raise Undecided('goto-cc failed on prelude: %s' % (o + e)[-2000:])
            # demangled names for the extraction-break check
            rc, o, e = sh(['llvm-cxxfilt-14'] if shutil.which('llvm-cxxfilt-14') else ['c++filt'], timeout=60) if False else (0, '', '')
            p = subprocess.run(['c++filt'], input='\n'.join(info['functions']).encode(), stdout=subprocess.PIPE)
            info['demangled'] = p.stdout.decode().split('\n')
            info['build_s'] = time.time() - t0
            ent['res'] = {'dir': d, 'info': info}
            return ent['res']
        except Undecided as u:
            ent['err'] = str(u)
            raise


# declared-only externals that may be called by extracted code without a model (harmless or handled elsewhere)
HARMLESS_DECLS = {'_Znwm', '_Znam', '_ZdlPv', '_ZdaPv', '_ZdlPvm', '_ZdaPvm',  # modelled in tools/ir_prelude.c
                  '__cxa_begin_catch', '__cxa_end_catch', '__gxx_personality_v0', '__cxa_guard_acquire', '__cxa_guard_release',
                  '__cxa_atexit'}


def parse_cbmc_json(path):
    try:
        txt = open(path).read()
        data = json.loads(txt)
    except Exception as e:
        return None, 'cannot parse cbmc json output: %r' % (e,), []
    results = None; msgs = []
    for x in data:
        if isinstance(x, dict):
            if 'result' in x: results = x['result']
            if x.get('messageType') in ('ERROR', 'WARNING'):
                msgs.append(x.get('messageType') + ': ' + str(x.get('messageText')))
    return results, None, msgs


def json_value_to_c(v):
    """CBMC json-ui trace value -> C initializer text"""
    n = v.get('name')
    if n == 'struct':
        return '{' + ', '.join('.%s = %s' % (m['name'], json_value_to_c(m['value'])) for m in v.get('members', [])
                              if not m['name'].startswith('$pad')) + '}'
    if n == 'array':
        els = sorted(v.get('elements', []), key=lambda e: e['index'])
        return '{' + ', '.join('[%d] = %s' % (e['index'], json_value_to_c(e['value'])) for e in els) + '}'
    if n == 'union':
        m = v.get('member')
        if m: return '{.%s = %s}' % (m['name'], json_value_to_c(m['value']))
        return '{0}'
    if n == 'pointer': return '0'
    if n in ('integer', 'boolean', 'char', 'bitvector') or 'binary' in v:
        b = v.get('binary')
        if b is None:
            d = str(v.get('data'))
            if d == 'TRUE' or d == 'true': return '1'
            if d == 'FALSE' or d == 'false': return '0'
            return re.sub(r'[a-zA-Z]+$', '', d)
        if n == 'float':
            w = v.get('width', len(b))
            return ('rp_f64(0x%xULL)' if w == 64 else 'rp_f32(0x%xU)') % int(b, 2)
        return '0x%xULL' % int(b, 2)
    if n == 'float':
        return str(v.get('data'))
    return '0'


def extract_inputs(trace):
    """first whole-variable assignments to harness inputs (in_*) plus later member refinements are ignored"""
    vals = {}
    for st in trace:
        if st.get('stepType') != 'assignment': continue
        lhs = st.get('lhs', '')
        if not lhs.startswith('in_'): continue
        if re.fullmatch(r'in_[A-Za-z0-9_]*', lhs) and lhs not in vals:
            vals[lhs] = st['value']
    return vals


class Runner:
    def __init__(self, prop, jobs, tier, seed=0):
        self.prop = prop; self.jobs = jobs; self.tier = tier; self.seed = seed
        self.bdir = os.path.join(VERIF, 'build', prop)
        self.odir = os.path.join(VERIF, 'out', prop)
        os.makedirs(self.bdir, exist_ok=True); os.makedirs(self.odir, exist_ok=True)
        self.undecided = []
        self.lock = threading.Lock()

    # ------------------------------------------------------------------ one job
    def job_dir(self, job):
        d = os.path.join(self.bdir, 'job-' + re.sub(r'[^A-Za-z0-9_.-]', '_', job.name))
        os.makedirs(d, exist_ok=True)
        return d

    def compile_job(self, job, d, extra_defs=()):
        shim = build_shim(self.bdir, job.shim, job.shim_defines)
        info = shim['info']
        # extraction-break check: every function under contract must be present in the extracted IR
        for pat in job.functions:
            rx = re.compile(pat)
            if not any(rx.search(n) for n in info['demangled']):
                raise Undecided('job %s: no extracted function matches /%s/ (renamed or removed? extraction break)' % (job.name, pat))
        # macro -> mangled name of the unique extracted function whose demangled name matches the regex
        resolved = {}
        for macro, pat in job.resolve.items():
            rx = re.compile(pat)
            hits = [m for m, dn in zip(info['functions'], info['demangled']) if rx.search(dn)]
            if len(hits) == 0 and macro.startswith('OPT_'):
                continue      # optional: the function is simply not part of this extraction
            if len(hits) != 1:
                raise Undecided('job %s: /%s/ matches %d extracted functions, need exactly one (extraction break)' % (job.name, pat, len(hits)))
            resolved[macro] = hits[0] if re.fullmatch(r'[A-Za-z_][A-Za-z0-9_]*', hits[0]) else 'g_' + re.sub(r'[^A-Za-z0-9_]', '_', hits[0])
        # macro -> name of the unique generated struct type whose name matches the regex
        if job.resolve_types:
            names = re.findall(r'^struct (?:__attribute__\(\(packed\)\) )?(\w+) \{', open(os.path.join(shim['dir'], 'gen.h')).read(), re.M)
            for macro, pat in job.resolve_types.items():
                rx = re.compile(pat)
                hits = [n for n in names if rx.search(n)]
                if len(hits) != 1:
                    raise Undecided('job %s: struct pattern /%s/ matches %d generated types, need exactly one (extraction break)' % (job.name, pat, len(hits)))
                resolved[macro] = 'struct ' + hits[0]
        job._resolved = resolved
        extra_defs = list(extra_defs) + ['%s=%s' % kv for kv in resolved.items()]   # (filled below, after the type resolution)
        bad = [n for n in info['called_declared_only'] if n not in HARMLESS_DECLS]
        job._declared_only = bad
        gb = os.path.join(d, 'a.gb')
        csrc = os.path.join(VERIF, 'contracts', job.contract)
        if job.mode == 'assert':
            # contract enforced by rewriting (requires -> assume, ensures -> assert); no frame check, much cheaper than dfcc
            sys.path.insert(0, TOOLS)
            import c2n
            csrc2 = os.path.join(d, 'contract_assert_mode.c')
            try:
                open(csrc2, 'w').write('#line 1 "%s"\n' % csrc + c2n.convert(open(csrc).read()))
            except Exception as ex:
                raise Undecided('job %s: c2n rewriting failed: %r' % (job.name, ex))
            csrc = csrc2
            extra_defs = list(extra_defs) + ['ASSERT_MODE']
        srcs = [csrc] + [os.path.join(VERIF, x) for x in job.extra_sources]
        cmd = ['goto-cc', '-I', TOOLS, '-I', shim['dir'], '-I', os.path.join(VERIF, 'contracts'), '-DHARNESS=' + job.harness] + [x for d_ in job.include_dirs for x in ('-I', d_)] + \
              ['-D' + x for x in list(job.defines) + list(extra_defs)] + srcs + \
              [os.path.join(shim['dir'], 'gen.gb'), os.path.join(shim['dir'], 'prelude.gb'), '--function', job.harness, '-o', gb]
        rc, o, e = sh(cmd, timeout=600)
        if rc != 0: raise Undecided('job %s: goto-cc failed: %s' % (job.name, (o + e)[-3000:]))
        cur = gb
        if (job.unwind is not None or job.unwindset) and job.mode != 'assert':
            # (assert mode: no dfcc afterwards, so loops are unwound lazily by cbmc itself, see cbmc_cmd)
            nxt = os.path.join(d, 'u.gb')
            cmd = ['goto-instrument']
            if job.unwind is not None: cmd += ['--unwind', str(job.unwind)]
            for us in job.unwindset: cmd += ['--unwindset', us]
            cmd += ['--unwinding-assertions', cur, nxt]
            rc, o, e = sh(cmd, timeout=900)
            if rc != 0: raise Undecided('job %s: goto-instrument --unwind failed: %s' % (job.name, (o + e)[-3000:]))
            cur = nxt
        if job.replace_calls:
            nxt = os.path.join(d, 'r.gb')
            cmd = ['goto-instrument']
            for old, new in job.replace_calls:
                if old.startswith('OPT_') and old not in resolved: continue
                cmd += ['--replace-calls', '%s:%s' % (resolved.get(old, old), new)]
            cmd += [cur, nxt]
            rc, o, e = sh(cmd, timeout=900)
            if rc != 0: raise Undecided('job %s: goto-instrument --replace-calls failed: %s' % (job.name, (o + e)[-3000:]))
            cur = nxt
        if job.mode == 'assert':
            nxt = os.path.join(d, 'c.gb')
            shutil.copyfile(cur, nxt)
            job._dfcc_log = ''
            return nxt
        nxt = os.path.join(d, 'c.gb')
        cmd = ['goto-instrument', '--dfcc', job.harness]
        for f in job.enforce: cmd += ['--enforce-contract', resolved.get(f, f)]
        for f in job.replace: cmd += ['--replace-call-with-contract', '/'.join(resolved.get(x, x) for x in f.split('/'))]
        if job.loop_contracts: cmd += ['--apply-loop-contracts']
        cmd += [cur, nxt]
        rc, o, e = sh(cmd, timeout=900)
        job._dfcc_log = o + e
        if rc != 0: raise Undecided('job %s: goto-instrument --dfcc failed: %s' % (job.name, (o + e)[-3000:]))
        return nxt

    def cbmc_cmd(self, job, gb):
        cmd = ['cbmc', gb, '--json-ui']
        if job.object_bits: cmd += ['--object-bits', str(job.object_bits)]   # dfcc's object sets have 2^bits entries: keep small
        if job.backend == 'cvc5': cmd += ['--cvc5']
        elif job.backend == 'z3': cmd += ['--z3']
        elif job.backend == 'cadical': cmd += ['--sat-solver', 'cadical']
        elif job.backend == 'kissat': cmd += ['--external-sat-solver', 'kissat']
        if job.mode == 'assert' and job.unwind is not None and '--unwind' not in job.cbmc_flags:
            cmd += ['--unwind', str(job.unwind), '--unwinding-assertions']
        for us in (job.unwindset if job.mode == 'assert' else []):
            for mac, val in getattr(job, '_resolved', {}).items(): us = us.replace('{%s}' % mac, val)
            cmd += ['--unwindset', us]
        cmd += job.cbmc_flags
        return cmd

    def run_job(self, job):
        t0 = time.time()
        try:
            d = self.job_dir(job)
            gb = self.compile_job(job, d)
            outp = os.path.join(d, 'result.json')
            cmd = self.cbmc_cmd(job, gb)
            job._cmd = ' '.join(cmd)
            if os.environ.get('VERIF_JOB_TIMEOUT'): job.timeout = min(job.timeout, int(os.environ['VERIF_JOB_TIMEOUT']))   # probing aid
            with MEM_BUDGET.take(job.mem_gb):
                ts = time.time()
                rc, o, e = sh(cmd, timeout=job.timeout, stdout_path=outp, mem_kb=int(job.mem_gb * 1.4 * 1048576))
                job.solver_s = time.time() - ts
            if rc == 124: raise Undecided('job %s: cbmc timeout after %ss (back end %s)' % (job.name, job.timeout, job.backend))
            results, err, msgs = parse_cbmc_json(outp)
            if results is None:
                raise Undecided('job %s: cbmc gave no result (rc=%s): %s %s' % (job.name, rc, err or '', ' | '.join(msgs[-5:]) + e[-500:]))
            job._msgs = msgs
            if any(r.get('status') == 'ERROR' for r in results):
                raise Undecided('job %s: the solver gave up (%s): no verdict' % (job.name, ' | '.join(mt for mt in msgs if mt.startswith('ERROR'))[:300] or 'status ERROR'))
            for mtxt in msgs:
                if 'ignoring' in mtxt and ('forall' in mtxt or 'exists' in mtxt or 'quantif' in mtxt):
                    raise Undecided('job %s: back end ignored a quantifier: %s' % (job.name, mtxt))
            nobody = [mt for mt in msgs if 'no body for' in mt]
            if nobody:
                raise Undecided('job %s: function without body or contract reached: %s' % (job.name, '; '.join(nobody[:5])))
            canary = [r for r in results if 'canary' in r.get('description', '')]
            others = [r for r in results if 'canary' not in r.get('description', '')]
            # UNKNOWN = never reached by symbolic execution (e.g. unwound loop copies beyond the feasible count): no obligation
            job.unreachable = sum(1 for r in others if r['status'] == 'UNKNOWN')
            others = [r for r in others if r['status'] != 'UNKNOWN']
            if job.ignore:
                rx = re.compile(job.ignore)
                job.ignored = [r for r in others if rx.search(r['property'] + ' ' + r.get('description', '')) and r['status'] != 'SUCCESS']
                others = [r for r in others if r not in job.ignored]
            job.obligations = len(others)
            job.discharged = sum(1 for r in others if r['status'] == 'SUCCESS')
            job.failed = [r for r in others if r['status'] != 'SUCCESS']
            job.results = others
            if not job.no_canary:
                if not canary: raise Undecided('job %s: harness has no canary' % job.name)
                job.canary_ok = all(r['status'] == 'FAILURE' for r in canary)
                if not job.canary_ok:
                    raise Undecided('job %s: VACUOUS: canary after the call is unreachable (contradictory requires?)' % job.name)
            if job.loop_contracts and not any('loop_invariant_step' in r['property'] or 'loop invariant' in r.get('description', '') for r in others):
                raise Undecided('job %s: loop contract expected but no loop-invariant obligation generated' % job.name)
            if job.obligations == 0: raise Undecided('job %s: zero obligations generated' % job.name)
            bad_status = [r for r in job.failed if r['status'] not in ('FAILURE',)]
            if bad_status: raise Undecided('job %s: obligation status %s for %s' % (job.name, bad_status[0]['status'], bad_status[0]['property']))
            job.status = 'pass' if not job.failed else 'fail'
        except Undecided as u:
            job.status = 'undecided'; job.detail = str(u)
        except Exception as ex:
            import traceback
            job.status = 'undecided'; job.detail = 'internal error in runner: ' + traceback.format_exc()
        job.wall_s = time.time() - t0
        return job

    # ------------------------------------------------------------------ counterexample + native replay
    def counterexample(self, job):
        """re-run cbmc with --trace for the first failing obligation; write replay file; run native replay.
        returns (replay_path, reproduced:bool|None, text)"""
        d = self.job_dir(job)
        gb = os.path.join(d, 'c.gb')
        fail = job.failed[0]
        if job.witness_defines:
            # abstraction in use (uninterpreted stubs): ask for a witness from the generic part of the input space so that it
            # has a chance to replay on the real code
            try:
                d2 = os.path.join(d, 'witness'); os.makedirs(d2, exist_ok=True)
                gb = self.compile_job(job, d2, extra_defs=job.witness_defines)
            except Undecided:
                gb = os.path.join(d, 'c.gb')
        outp = os.path.join(d, 'trace.json')
        cmd = self.cbmc_cmd(job, gb) + ['--trace', '--property', fail['property']]
        rc, o, e = sh(cmd, timeout=job.timeout * 2, stdout_path=outp)
        inputs = {}
        if rc != 124:
            results, err, msgs = parse_cbmc_json(outp)
            if results:
                for r in results:
                    if r['property'] == fail['property'] and r.get('trace'):
                        inputs = {k: json_value_to_c(v) for k, v in extract_inputs(r['trace']).items()}
        rdir = os.path.join(self.odir, 'replay'); os.makedirs(rdir, exist_ok=True)
        rpath = os.path.join(rdir, re.sub(r'[^A-Za-z0-9_.-]', '_', job.name) + '.json')
        rep = {'property': self.prop, 'job': job.name, 'harness': job.harness, 'contract': job.contract, 'shim': job.shim,
               'defines': job.defines + ['%s=%s' % kv for kv in getattr(job, '_resolved', {}).items()], 'include_dirs': job.include_dirs, 'shim_defines': job.shim_defines, 'what': job.what,
               'failed_obligations': [{'property': r['property'], 'description': r.get('description'),
                                       'location': r.get('sourceLocation', {})} for r in job.failed],
               'verifier_output': ['%s: %s: %s' % (r['property'], r.get('description'), r['status']) for r in job.failed],
               'checker_cmd': getattr(job, '_cmd', ''), 'inputs': inputs}
        json.dump(rep, open(rpath, 'w'), indent=1)
        if job.no_replay:
            return rpath, None, 'no native replay for this job (blocking primitives are modelled, not executed)'
        if not inputs and not job_has_no_inputs(job):
            return rpath, None, 'verifier produced no input assignment'
        rc, text = native_replay(rep, os.path.join(self.bdir, 'native-' + re.sub(r'[^A-Za-z0-9_.-]', '_', job.name)))
        rep['native_replay'] = {'exit': rc, 'output': text[-4000:]}
        json.dump(rep, open(rpath, 'w'), indent=1)
        if rc == 1 or rc < 0 or rc >= 128 or rc == 124: return rpath, True, text
        if rc == 0 or rc == 3: return rpath, False, text
        return rpath, None, text


def job_has_no_inputs(job):
    return False


def native_replay(rep, ndir):
    """build the contract natively against the real tlx code (g++) and run the harness on the recorded inputs.
    returns (exit code, output). exit 1 / signal = reproduced, 0 = contract holds on the real code, 3 = precondition unmet,
    2 = native build failed."""
    os.makedirs(ndir, exist_ok=True)
    csrc = os.path.join(VERIF, 'contracts', rep['contract'])
    shim_src = os.path.join(VERIF, 'shims', rep['shim'] + '.cpp')
    # inputs header
    text = open(csrc).read()
    names = set(re.findall(r'\bINPUT(?:_ARR)?\s*\(\s*[^,]+,\s*(in_[A-Za-z0-9_]+)', text))
    # also from included contract fragments
    for inc in re.findall(r'#include\s+"([^"]+)"', text):
        p = os.path.join(VERIF, 'contracts', inc)
        if os.path.exists(p):
            names |= set(re.findall(r'\bINPUT(?:_ARR)?\s*\(\s*[^,]+,\s*(in_[A-Za-z0-9_]+)', open(p).read()))
    names |= set(rep['inputs'].keys())
    def write_inputs():
        with open(os.path.join(ndir, 'replay_inputs.h'), 'w') as f:
            for n in sorted(names):
                f.write('#define RP_INIT_%s %s\n' % (n, rep['inputs'].get(n, '{0}')))
    write_inputs()
    # generated header: need gen.h of the shim -> rebuild shim extraction in ndir (cheap)
    ll = os.path.join(ndir, 'shim.ll')
    rc, o, e = sh(['clang++'] + CLANG_FLAGS + ['-D' + x for x in rep['shim_defines']] + [shim_src, '-o', ll], timeout=600)
    if rc != 0: return 2, 'native replay: clang++ failed: ' + e[-2000:]
    rc, o, e = sh([sys.executable, os.path.join(TOOLS, 'ir2c.py'), ll, os.path.join(ndir, 'gen'), '--root-prefix', 'w_'], timeout=600)
    if rc != 0: return 2, 'native replay: ir2c failed: ' + e[-2000:]
    # contract -> native C (every contract fragment it includes as well)
    sys.path.insert(0, TOOLS)
    import c2n
    cdir = os.path.join(ndir, 'c'); os.makedirs(cdir, exist_ok=True)
    for fn in os.listdir(os.path.join(VERIF, 'contracts')):
        if fn.endswith('.c') or fn.endswith('.h'):
            try:
                open(os.path.join(cdir, fn), 'w').write(c2n.convert(open(os.path.join(VERIF, 'contracts', fn)).read()))
            except Exception as ex:
                if fn == rep['contract']: return 2, 'native replay: c2n failed on %s: %r' % (fn, ex)
    san = ['-fsanitize=address,undefined', '-fno-sanitize-recover=undefined', '-fno-omit-frame-pointer'] if os.environ.get('VERIF_REPLAY_NOSAN') is None else []
    defs = ['-D' + x for x in rep['defines']]
    obj_c = os.path.join(ndir, 'contract.o'); obj_s = os.path.join(ndir, 'shim.o'); obj_r = os.path.join(ndir, 'rt.o')
    exe = os.path.join(ndir, 'replay')
    for _ in range(8):
        rc, o, e = sh(['gcc', '-std=gnu11', '-g', '-O0', '-fexceptions', '-w', '-DNATIVE', '-DHARNESS=' + rep['harness'], '-I', ndir, '-I', TOOLS, '-I', cdir] + [x for d_ in rep.get('include_dirs', []) for x in ('-I', d_)] + defs + san +
                      ['-c', os.path.join(cdir, rep['contract']), '-o', obj_c], timeout=600, mem=False)
        missing = set(re.findall(r'RP_INIT_(in_[A-Za-z0-9_]+)[^A-Za-z0-9_]+undeclared', e))
        if rc == 0 or not (missing - names): break
        names |= missing; write_inputs()   # inputs the verifier left unconstrained (token-pasted names): zero
    if rc != 0: return 2, 'native replay: gcc failed on contract: ' + e[-3000:]
    rc, o, e = sh(['g++', '-std=c++17', '-g', '-O1', '-w', '-fno-access-control', '-DTLX_VERIF_NATIVE', '-I', REPO, '-I', os.path.join(VERIF, 'shims')] +
                  ['-D' + x for x in rep['shim_defines']] + san + ['-c', shim_src, '-o', obj_s], timeout=900, mem=False)
    if rc != 0: return 2, 'native replay: g++ failed on the real code: ' + e[-3000:]
    rc, o, e = sh(['g++', '-std=c++17', '-g', '-O0', '-w', '-DRP_HARNESS=' + rep['harness'], '-I', TOOLS] + san + ['-c', os.path.join(TOOLS, 'replay_rt.cpp'), '-o', obj_r], timeout=600, mem=False)
    if rc != 0: return 2, 'native replay: g++ failed on runtime: ' + e[-3000:]
    rc, o, e = sh(['g++', obj_c, obj_s, obj_r, '-o', exe, '-lpthread'] + san, timeout=600, mem=False)
    if rc != 0: return 2, 'native replay: link failed: ' + e[-3000:]
    os.environ['ASAN_OPTIONS'] = 'detect_leaks=0'
    rc, o, e = sh([exe], timeout=60, mem=False)
    return rc, (o + e)


# ---------------------------------------------------------------------- property-level driver
def load_known():
    p = os.path.join(VERIF, 'known_findings.json')
    if not os.path.exists(p): return []
    return json.load(open(p)).get('findings', [])


def main(prop, jobs_fn, meta):
    """meta: dict(level, technique, assumptions[list], not_decided[list], rule)"""
    import argparse
    ap = argparse.ArgumentParser()
    ap.add_argument('--tier', default=os.environ.get('VERIF_TIER', 'quick'))
    ap.add_argument('--replay')
    ap.add_argument('--only', help='regex over job names')
    ap.add_argument('--update-baseline', action='store_true')
    ap.add_argument('--keep', action='store_true')
    ap.add_argument('-v', action='store_true')
    a = ap.parse_args(sys.argv[2:] if len(sys.argv) > 1 and sys.argv[1] == prop else sys.argv[1:])
    seed = int(os.environ.get('VERIF_SEED', '0') or 0)
    if a.replay:
        rep = json.load(open(a.replay))
        rc, text = native_replay(rep, os.path.join(VERIF, 'build', prop, 'native-replay-cmd'))
        print(text)
        print('failed obligations recorded by the verifier:')
        for ln in rep.get('verifier_output', []): print('  ' + ln)
        sys.exit(1 if (rc == 1 or rc >= 128 or rc < 0) else (0 if rc in (0,) else 2))
    tier = a.tier if a.tier in ('quick', 'thorough') else 'quick'
    t0 = time.time()
    jobs = [j for j in jobs_fn(tier) if tier == 'thorough' or j.tier == 'quick']
    if a.only: jobs = [j for j in jobs if re.search(a.only, j.name)]
    R = Runner(prop, jobs, tier, seed)
    if not a.only:
        shutil.rmtree(R.bdir, ignore_errors=True); os.makedirs(R.bdir, exist_ok=True)
    # longest first
    order = sorted(jobs, key=lambda j: -j.timeout)
    with cf.ThreadPoolExecutor(max_workers=NCPU) as ex:
        list(ex.map(R.run_job, order))
    known = [k for k in load_known() if k.get('property') == prop and k.get('status') == 'open' and not os.environ.get('VERIF_IGNORE_KNOWN')]
    base_path = os.path.join(VERIF, 'baseline', 'obligations.json')
    baseline = json.load(open(base_path)) if os.path.exists(base_path) else {}
    violations = []; known_hits = []; undecided = []
    for j in jobs:
        if j.status == 'undecided': undecided.append(j); continue
        b = baseline.get(prop, {}).get(j.name)
        if b is not None and j.obligations < b and not a.update_baseline:
            j.status = 'undecided'; j.detail = 'job %s: only %d obligations generated, committed baseline has %d (silently dropped contract?)' % (j.name, j.obligations, b)
            undecided.append(j); continue
        if j.status == 'fail':
            # known finding?  a job dedicated to a known finding lists its id in job.known; it must fail only there
            kf = [k for k in known if k.get('job') == j.name]
            if kf and all(any(re.search(k['obligation'], r['property'] + ' ' + r.get('description', '')) for k in kf) for r in j.failed):
                known_hits.append((j, kf)); continue
            violations.append(j)
    rc = 0
    for j, kf in known_hits:
        for k in kf: print('KNOWN-FINDING: property=%s %s' % (prop, k['what']))
    # a known finding whose job now passes is worth a note (not an alarm)
    for k in known:
        jj = [j for j in jobs if j.name == k.get('job')]
        if jj and jj[0].status == 'pass': print('NOTE: known finding no longer reproduces: %s' % k['what'])
    vio_records = []
    # counterexample extraction + native replay, in parallel; at most MAXREPLAY native replays per run (the rest is
    # reported with the verifier's output only)
    MAXREPLAY = int(os.environ.get('VERIF_MAX_REPLAY', '6'))
    def cex(arg):
        idx, j = arg
        if idx >= MAXREPLAY:
            rdir = os.path.join(R.odir, 'replay'); os.makedirs(rdir, exist_ok=True)
            rpath = os.path.join(rdir, re.sub(r'[^A-Za-z0-9_.-]', '_', j.name) + '.json')
            json.dump({'property': prop, 'job': j.name, 'what': j.what, 'checker_cmd': getattr(j, '_cmd', ''),
                       'verifier_output': ['%s: %s: %s' % (r['property'], r.get('description'), r['status']) for r in j.failed],
                       'note': 'native replay skipped: more than %d violations in this run' % MAXREPLAY}, open(rpath, 'w'), indent=1)
            return rpath, None, 'native replay skipped (more than %d violations in this run)' % MAXREPLAY
        try:
            return R.counterexample(j)
        except Exception as ex:
            return os.path.join(R.odir, 'replay', j.name + '.json'), None, 'counterexample extraction failed: %r' % (ex,)
    with cf.ThreadPoolExecutor(max_workers=max(1, min(NCPU, 8))) as ex:
        cex_res = list(ex.map(cex, list(enumerate(violations))))
    for j, (rpath, repro, text) in zip(violations, cex_res):
        tail = '' if repro else ' no-failing-input-found'
        print('VIOLATION property=%s replay=%s%s' % (prop, rpath, tail))
        print('  job %s (%s): failed obligation(s):' % (j.name, j.what))
        for r in j.failed[:6]:
            print('    %s: %s [%s line %s]' % (r['property'], r.get('description'), r.get('sourceLocation', {}).get('file'), r.get('sourceLocation', {}).get('line')))
        for ln in (text or '').strip().split('\n')[-6:]: print('    replay> ' + ln)
        vio_records.append({'job': j.name, 'replay': rpath, 'reproduced': bool(repro)})
        rc = 1
    for j in undecided:
        print('UNDECIDED: %s' % j.detail.strip()[:3000])
        if rc == 0: rc = 2
    if a.update_baseline and rc == 0:
        baseline.setdefault(prop, {})
        for j in jobs: baseline[prop][j.name] = j.obligations
        json.dump(baseline, open(base_path, 'w'), indent=1, sort_keys=True)
    wall = time.time() - t0
    write_evidence(prop, tier, seed, jobs, meta, wall, len(violations), known_hits, undecided)
    tot = sum(j.obligations for j in jobs); dis = sum(j.discharged for j in jobs)
    print('%s %s: %d jobs, %d/%d obligations discharged, %d violation(s), %d known finding(s), %d undecided, %.1fs' %
          (prop, tier, len(jobs), dis, tot, len(violations), len(known_hits), len(undecided), wall))
    if a.v or rc != 0:
        for j in jobs:
            print('  %-48s %-9s %5d/%-5d %6.1fs %s %s' % (j.name, j.status, j.discharged, j.obligations, j.wall_s, j.backend, j.label))
    if not a.keep and rc == 0 and not a.only:
        shutil.rmtree(R.bdir, ignore_errors=True)
    sys.exit(rc)


def write_evidence(prop, tier, seed, jobs, meta, wall, nviol, known_hits, undecided):
    os.makedirs(os.path.join(VERIF, 'evidence'), exist_ok=True)
    # jobs that exist to show that a recorded known finding still reproduces are expected to fail one obligation: they are
    # reported separately and are not part of the obligations / discharged totals of the property
    kf_jobs = set(j.name for j, _ in known_hits)
    counted = [j for j in jobs if j.name not in kf_jobs]
    tot = sum(j.obligations for j in counted); dis = sum(j.discharged for j in counted)
    complete = [j for j in jobs if j.label == 'complete']
    bounded = [j for j in jobs if j.label != 'complete']
    level = meta.get('level', 'proof')
    per_job = []
    declared_only = set()
    for j in jobs:
        per_job.append({'job': j.name, 'what': j.what, 'functions_under_contract': j.functions, 'enforced': j.enforce,
                        'replaced_by_contract': j.replace, 'replaced_by_uninterpreted_stub': ['%s -> %s' % rc for rc in j.replace_calls], 'obligations': j.obligations, 'discharged': j.discharged,
                        'status': j.status, 'back_end': j.backend, 'solver_s': round(j.solver_s, 2), 'wall_s': round(j.wall_s, 2),
                        'completeness': j.label, 'contract_enforcement': 'goto-instrument --dfcc (frame checked)' if j.mode == 'dfcc' else 'requires->assume / ensures->assert rewriting by tools/c2n.py (frame NOT checked)', 'unwind': j.unwind, 'loop_contracts': j.loop_contracts,
                        'canary_reached': j.canary_ok, 'unreachable_checks': j.unreachable,
                        'ignored_checks': ['%s: %s (%s)' % (r['property'], r.get('description'), j.ignore_why) for r in j.ignored][:10]})
        declared_only |= set(getattr(j, '_declared_only', []))
    samples = []
    for j in jobs[:3]:
        rs = getattr(j, 'results', [])
        samples.append({'job': j.name, 'checker_cmd': getattr(j, '_cmd', ''), 'obligations': [
            '%s: %s: %s' % (r['property'], r.get('description'), r['status']) for r in rs[:6]]})
    cov = {
        'obligations': tot, 'discharged': dis,
        'checker_cmd': 'tools/vlib.py: clang++ -O0 -emit-llvm | tools/ir2c.py | goto-cc | goto-instrument [--unwind N --unwinding-assertions] --dfcc H --enforce-contract F [--replace-call-with-contract G] [--apply-loop-contracts] | cbmc --json-ui [--cvc5]',
        'trusted_base': TRUSTED_BASE + meta.get('trusted_extra', []),
        'explanation': meta.get('explanation', ''),
        'jobs': per_job,
        'jobs_complete': len(complete), 'jobs_bounded': len(bounded),
        'bounded_jobs': [{'job': j.name, 'bound': j.label} for j in bounded],
        'functions_under_contract': sorted(set(f for j in jobs for f in j.functions)),
        'evaluations': len(jobs), 'distinct_nontrivial': len([j for j in jobs if j.obligations > 0]),
        'rule': 'one evaluation = one contract job (harness + enforced contract) run through CBMC; non-trivial = generated at least one obligation and its canary was reached',
        'samples': samples,
        'declared_only_externals_called': sorted(declared_only),
        'known_findings_reproduced': [k['what'] for _, kf in known_hits for k in kf],
        'known_finding_jobs_not_counted': sorted(kf_jobs),
        'undecided_jobs': [j.detail[:300] for j in undecided],
        'solver_s_total': round(sum(j.solver_s for j in jobs), 1),
    }
    ev = {'property_id': prop, 'tier': tier, 'seed': seed, 'level': level, 'coverage': cov,
          'assumptions': TRUSTED_BASE + meta.get('assumptions', []) + ['NOT DECIDED: ' + x for x in meta.get('not_decided', [])],
          'wall_s': round(wall, 1), 'violations': nviol}
    json.dump(ev, open(os.path.join(VERIF, 'evidence', prop + '.json'), 'w'), indent=1)
