#!/usr/bin/env python3
"""keep_mutant.py <property> <name> <mutant dir> <needs> <caught-by> <ran> : store a confirmed seeded change under /verif/seeded/"""
import sys, os, shutil, json
prop, name, src, needs, caught, ran = sys.argv[1:7]
d = os.path.join('/verif/seeded', '%s-%s' % (prop, name)); os.makedirs(d, exist_ok=True)
for f in ('patch.diff', 'demo.cpp', 'notes.txt'):
    if os.path.exists(os.path.join(src, f)): shutil.copy(os.path.join(src, f), os.path.join(d, f))
json.dump({'property': prop, 'breaks': open(os.path.join(src, 'notes.txt')).read().strip().split('\n')[0][:300] if os.path.exists(os.path.join(src, 'notes.txt')) else '',
           'needs_to_manifest': needs, 'detected_by': caught,
           'confirmed': 'demo exits 0 on the original tree and non-zero with the change; the component\'s existing unit tests still pass with the change (tools/confirm_mutant.sh in a scratch worktree)',
           'ran': ran}, open(os.path.join(d, 'meta.json'), 'w'), indent=1)
print('kept', d)
