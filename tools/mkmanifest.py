#!/usr/bin/env python3
"""regenerate /verif/MANIFEST.json from props/*.py (claimed checks) and the table below (texts)."""
import json, os, sys, importlib
here = os.path.dirname(os.path.dirname(os.path.abspath(__file__)))
sys.path.insert(0, os.path.join(here, 'tools')); sys.path.insert(0, here)
TEXT = {
 'C20': ('every math helper overload and portable fall-back enforced against its defining property for all argument values of its width (width-bounded loops fully unwound with unwinding assertions); Aggregate: exact parts and a+=b == a+b with the two floating-point helpers abstracted as uninterpreted functions',
         'Bounded: popcount(data,size) size <= 13. Not decided: round_up divisibility clause at 32/64 bit, round_up<int64_t>, Aggregate mean/variance vs single feed up to rounding. Known findings (open): div_ceil/round_up overflow of n+k-1 and negative n.'),
 'C16': ('every RingBuffer operation enforced from an arbitrary well-formed buffer (symbolic capacity <= 16, cursors, contents) against the deque equation on a ghost position and a ghost-slot lifetime ledger; SimpleVector operations for all three modes with construction/destruction/assignment counters',
         'Bounded: RingBuffer capacity <= 16 (max_size 0..15), SimpleVector n <= 4; all histories follow by the stated induction over operations. Element type Elem{int}. copy_to/move_to not covered.'),
 'C15': ('each of the 45 size-specific networks and each dispatcher size proved on all 2^n zero-one inputs (sizes 2..4 also on all byte inputs), plus the compare-exchange functor contract',
         'Zero-one principle (stated, standard) lifts the 0/1 result to every input and order, given that the networks touch data only through the functor. std::greater variants in the thorough tier.'),
 'C12': ('every CountingPtr operation enforced from an arbitrary state satisfying count == number of handles (two objects, three participating handles, symbolic number of further handles), with a ledger for exactly-once destruction',
         'Sequential half only: std::atomic executed sequentially. The concurrent half (interleavings) is NOT decided by this technique.'),
 'C18': ('each StringView query enforced against a spec function transcribed from [string.view]; all byte values, all pos/n incl. npos; exceptions as throw events with exact conditions',
         'Bounded: haystack <= 4 bytes, needle <= 3 bytes. find() over view/pointer needles uses fixed-size buffers (reads past the view are caught only if they can change the result).'),
 'C13': ('every DAryHeap / DAryAddressableIntHeap operation enforced from an arbitrary well-formed heap (heap order + handles reflect exactly the contents), membership by ghost key, multiset by ghost value; RadixHeap: IntegerRank, BucketComputation (five facts the radix-heap argument needs) and BitArray for every radix 2..64 x every 8..64-bit key type, and push / top / pop / peak_top_key / clear of the class from an arbitrary well-formed heap (ghost frontier)',
         'Bounded: d-ary heap size <= 4, key universe 5, arities 2, 3 (quick), 4, 8 (thorough); RadixHeap leaf functions complete (full key width), RadixHeap class with at most 3 keys, int8_t keys radix 2. sanity_check(), build_heap(range / const vector&), RadixHeap emplace / swap_top_bucket / RadixHeapPair not under contract. Two defects found and repaired (build_heap stale handles 9b4e2b7, bucket index for 8/16-bit keys df180a1).'),
 'C11': ('per-call monitor contracts: Semaphore::signal / wait / try_acquire and ThreadBarrierMutex::wait over all size_t values with mutex = ghost flag and condition_variable::wait = havoc of the protected state under the lock',
         'SAFETY FRAGMENT ONLY: the schedule clauses of C11 (no stranded waiter, token conservation and barrier generations as whole-execution properties, ThreadBarrierSpin) are NOT decided by this technique. Bounded: at most 2 wake-ups per blocking call. Known finding: wait(delta, slack) when delta + slack wraps.'),
 'C17': ('every SplayTree operation (insert, erase, exists, find, clear, clear+reuse, destructor, traversal) enforced from an arbitrary valid search tree incl. the empty tree, for set and multiset mode; multiplicity by ghost key, node ledger',
         'Bounded: trees of <= 3 nodes (4 in thorough). LruCacheSet / LruCacheMap are NOT under contract. Assert-mode enforcement (assigns not checked).'),
 'C14': ('layered contracts per digest: constructor == standard H0; process() == stream-to-block contract (blocks fed are the consecutive slices of buffer ++ data, tail buffered, length counts compressed bits) with the compression function abstracted by a logging stub and a ghost stream offset; finalize() == standard padding for every curlen_; the compression functions themselves are NOT decided (no back end finishes their equivalence with the standard), so the digest part is decided relative to them; siphash_plain == SipHash-2-4 of the paper',
         'Bounded: one process() call <= two blocks + 7 bytes, one job per number of buffered bytes (quick: 1 and block-1 for MD5/SHA-1/SHA-256; thorough: 9 values per digest, SHA-512: 0, 1, 2). A wrong constant or rotation inside md5/sha1/sha256/sha512_compress is NOT detected. Reference text spec/digest_spec.h (constants generated from definitions, validated against hashlib each run). siphash_plain == SipHash-2-4 of the paper (spec/siphash_spec.h, checked against the published vectors each run) for every key and every message of 0..23, 130 and 255 bytes (cvc5). digest_hex wrappers, siphash_sse2 and the dispatching tlx::siphash() not under contract. Assert-mode enforcement for process/finalize.'),
 'C01': ('the seven node primitives on arbitrary node contents (complete for capacity 4/4, frame checked) and constructor, insert, erase_one, erase(iterator), exists, count, find, lower/upper_bound, begin/end, iterator ++/--, clear/destructor of btree_set / btree_multiset enforced from an arbitrary well-formed tree of depth <= 2 against the view (count of a ghost key, rank in leaf-chain order)',
         'Bounded: leaf/inner slots 4/4, depth <= 2 before and after (no growth to depth 3, no inner-level rebalancing inside a whole-tree job), 8-bit keys, set/multiset only; mutating whole-tree operations once per tuple of leaf fill degrees (keys symbolic; quick: the tuples reaching each leaf-level case, thorough: every tuple for a root with one separator plus six tuples with two). NOT decided: erase(iterator) on a multiset under an inner root, erase(key) of all duplicates, map/multimap, copy/assign/swap/bulk_load/comparisons. Whole-tree jobs: assert-mode enforcement (assigns not checked), pointer and bounds checks only.'),
 'C02': ('the same jobs as C01: the verify()-conditions as representation invariant (uniform depth, fill, order, separators, leaf chain, stats) after every mutating operation, and the node allocation ledger (live blocks == nodes; freed nodes never touched)',
         'Bounded as C01: slots 4/4, depth <= 2, set/multiset over 8-bit keys; element types with non-trivial lifetimes not covered.'),
 'C05': ('PARTIAL: the property statement (returns target+size, inputs advanced by size in total and within range, output ordered, stable: ties in (sequence, position) order, output == exactly the taken elements, nothing smaller left behind; tagged elements, ghost indices) as contract of merge_advance, of multiway_merge_base for k = 1 and k = 2 with every algorithm value, and of multiway_merge_loser_tree_sentinel (quick) / multiway_merge_loser_tree (thorough) called directly with k = 3',
         'Bounded: sequences of length <= 3 (k <= 2) / <= 2 (k = 3), all keys, all sizes. NOT decided: k >= 3 through multiway_merge_base and the public entry points (3/4-way goto state machines, combined variants, bubble, k >= 5): symbolic execution does not finish; two of three seeded changes live there and are not detected. Assert-mode enforcement.'),
 'C19': ('hexdump / hexdump_lc / parse_hexdump and base64_encode / decode against RFC 4648 and their round trips; to_lower / to_upper (all 256 characters), starts/ends_with (+icase), contains, compare_icase, trim family with a drop set, levenshtein (+icase) against transcriptions of their documented definitions',
         'Bounded: strings <= 6 bytes (base64: one job per length 0..6; levenshtein <= 3x3). NOT under contract: split / join / split_quoted / join_quoted, replace_*, erase_all, pad, lax base64 decoding. Assert-mode enforcement; std::string heap path stubbed as must-not-be-reached.'),
 'C09': ('tournament invariant (replayed bottom-up from the stored losers) established by construction and preserved by delete_min_insert from every well-formed state, for all 8 classes; the invariant implies the winner property (lemma job)',
         'Bounded configuration k <= 8 players; histories unbounded by induction. Unguarded variants under their documented precondition.'),
}
# properties whose checks have been run to completion on the unchanged tree (exit 0); extend as checks are validated
CLAIMED = ['C01', 'C02', 'C05', 'C09', 'C11', 'C12', 'C13', 'C14', 'C15', 'C16', 'C17', 'C18', 'C19', 'C20']

def technique(mod):
    modes = set(j.mode for j in mod.jobs('thorough'))
    base = "contract-based deductive verification with CBMC 6.11 on the real functions (clang -O0 IR lowered to C by tools/ir2c.py each run): "
    dfcc = "function contracts (requires/ensures/assigns) enforced by goto-instrument --dfcc --enforce-contract"
    asrt = "function contracts (requires/ensures, old-state snapshots) enforced by rewriting them into assume/assert around the call (tools/c2n.py; assigns clause not checked), loops closed by unwinding assertions"
    if modes == {'dfcc'}: return base + dfcc
    if modes == {'assert'}: return base + asrt
    return base + dfcc + " for some jobs and " + asrt + " for the others (evidence names the mode per job)"


def main():
    props = [json.loads(l) for l in open(os.path.join(here, 'properties.jsonl'))]
    claimed = sorted(f[:-3] for f in os.listdir(os.path.join(here, 'props')) if f.startswith('C') and f.endswith('.py') and f[:-3] in TEXT and f[:-3] in CLAIMED)
    na_path = os.path.join(here, 'tools', 'not_applicable.json')
    na = json.load(open(na_path)) if os.path.exists(na_path) else {}
    m = {"version": 1, "setup_cmd": "true",
         "hooks": {"guard": "TLX_VERIF", "enable": "no hooks are needed: shims, contracts and stubs live in /verif (extraction runs clang++ on /repo's working tree)",
                   "baseline_off_cmd": "cmake --build /repo/_build && ctest --test-dir /repo/_build -j8 --timeout 900", "source_commits": [], "add_only": True},
         "engines": [{"name": "cbmc-contracts", "path": "/verif/tools/vlib.py", "serves_properties": claimed,
                      "kind_free_text": "clang -O0 LLVM IR -> tools/ir2c.py -> C; CBMC code contracts enforced per function by goto-instrument --dfcc; SAT (MiniSat/CaDiCaL) back end; native replay of counterexamples on g++-compiled tlx"}],
         "checks": [], "not_applicable": []}
    for pid in claimed:
        mod = importlib.import_module('props.' + pid)
        txt, note = TEXT[pid]
        m["checks"].append({"property_id": pid, "quick_cmd": "./check %s --tier quick" % pid, "thorough_cmd": "./check %s --tier thorough" % pid,
                            "evidence_file": "/verif/evidence/%s.json" % pid, "replay_cmd_template": "./check %s --replay {path}" % pid, "engine": "cbmc-contracts",
                            "level_claimed": {"category": mod.META.get('level', 'proof'), "text": txt, "design_ref": "DESIGN.md section 4, " + pid},
                            "level_note": "trusted: clang -O0 lowering, tools/ir2c.py, CBMC + SAT back end, tools/ir_prelude.c models. " + note,
                            "technique": technique(mod)})
    for p in props:
        if p['id'] not in claimed:
            m["not_applicable"].append({"property_id": p['id'], "reason": na.get(p['id'], "check not built yet in this session (see DESIGN.md section 9 for the build order)")})
    json.dump(m, open(os.path.join(here, 'MANIFEST.json'), 'w'), indent=1)
    print('claimed:', claimed)
main()
