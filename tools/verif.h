/* verif.h -- macros shared by all contract files.  Two modes:
 *   CBMC  (default):   INPUT declares a nondeterministic harness input, CANARY is the vacuity canary.
 *   NATIVE (-DNATIVE): the same file (after tools/c2n.py) runs the contract as runtime checks on the real
 *                      g++-compiled tlx code; INPUT takes its value from the counterexample (replay_inputs.h). */
#ifndef VERIF_H
#define VERIF_H
#include <stdint.h>
#include <stddef.h>
#include "ir_prelude.h"
#if defined(ASSERT_MODE) && !defined(NATIVE)
/* contract enforced by tools/c2n.py's rewriting instead of goto-instrument --dfcc: requires become assumptions, ensures
 * become assertions, __CPROVER_old() becomes a snapshot.  Same pre/post semantics; the assigns clause is NOT checked. */
#define rp_pre_fail(fn, k, text) __CPROVER_assume(0)
#define rp_ens_fail(fn, k, text) __CPROVER_assert(0, "ensures clause " #k " of " fn ": " text)
#endif
#ifndef NATIVE
#define INPUT(T, name) T name
#define INPUT_ARR(T, name, N) T name[N]
#define CANARY() __CPROVER_assert(0, "canary: end of harness reachable")
#define NONDET_OK 1
#else
#include <stdio.h>
#include <string.h>
void rp_pre_fail(const char* fn, int k, const char* text);
void rp_ens_fail(const char* fn, int k, const char* text);
void rp_assume_fail(const char* text);
void rp_assert_fail(const char* msg);
void rp_end(void);
double rp_f64(uint64_t bits);
float rp_f32(uint32_t bits);
#include "replay_inputs.h"
#define INPUT(T, name) T name = RP_INIT_##name
#define INPUT_ARR(T, name, N) T name[N] = RP_INIT_##name
#define CANARY() rp_end()
#define __CPROVER_assume(c) do { if (!(c)) rp_assume_fail(#c); } while (0)
#define __CPROVER_assert(c, m) do { if (!(c)) rp_assert_fail(m); } while (0)
#define __CPROVER_same_object(a, b) 1
#endif
/* exception kinds of the throw event (tools/ir2c.py THROW_KINDS) */
#define EXC_NONE 0
#define EXC_OUT_OF_RANGE 1
#define EXC_RANGE_ERROR 2
#define EXC_RUNTIME_ERROR 3
#define EXC_INVALID_ARGUMENT 4
#define EXC_LENGTH_ERROR 5
#define EXC_BAD_ALLOC 6
#define EXC_LOGIC_ERROR 7
#define EXC_OVERFLOW_ERROR 8
#endif
