/* ir_prelude.h -- declarations shared by every ir2c-generated translation unit and every contract file. */
#ifndef IR_PRELUDE_H
#define IR_PRELUDE_H
#include <stdint.h>
#include <stddef.h>
#include <stdlib.h>
#ifdef __cplusplus
extern "C" {
#endif
uint8_t* ir_memcpy(uint8_t* d, uint8_t* s, uint64_t n);
uint8_t* ir_memmove(uint8_t* d, uint8_t* s, uint64_t n);
uint8_t* ir_memset(uint8_t* d, uint8_t c, uint64_t n);
uint8_t* ir_alloc_exception(uint64_t n);
uint32_t ir_memcmp(uint8_t* a, uint8_t* b, uint64_t n);
uint32_t ir_strncmp(uint8_t* a, uint8_t* b, uint64_t n);
uint32_t ir_strcmp(uint8_t* a, uint8_t* b);
uint64_t ir_strlen(uint8_t* s);
uint8_t* ir_memchr(uint8_t* s, uint32_t c, uint64_t n);
void ir_throw_event(int kind);
extern uint64_t ir_live_allocs; /* blocks obtained from operator new and not yet deleted */
extern int ir_throw_allowed;   /* exception kind the active contract allows (0 = none) */
#ifdef __cplusplus
}
#endif
#endif
