// shim for C12: CountingPtr<Obj> / CountingPtr<Derived> over objects whose destructor reports to the ghost ledger.
#include <cstddef>
#include <new>
#include <utility>
#include <tlx/counting_ptr.hpp>

extern "C" void vf_obj_dtor(void* obj);
struct Obj : public tlx::ReferenceCounter {
    int payload;
    Obj() : payload(0) {}
    explicit Obj(int p) : payload(p) {}
    Obj(const Obj& o) : tlx::ReferenceCounter(o), payload(o.payload) {}
    ~Obj() { vf_obj_dtor(this); }
};
struct Derived : public Obj {
    int extra;
};
typedef tlx::CountingPtr<Obj> P;
typedef tlx::CountingPtr<Derived> PD;

extern "C" {
void w_cp_ctor_default(P* mem) { new (mem) P(); }
void w_cp_ctor_nullptr(P* mem) { new (mem) P(nullptr); }
void w_cp_ctor_ptr(P* mem, Obj* o) { new (mem) P(o); }
void w_cp_copy_ctor(P* mem, const P* o) { new (mem) P(*o); }
void w_cp_copy_ctor_conv(P* mem, const PD* o) { new (mem) P(*o); }
void w_cp_move_ctor(P* mem, P* o) { new (mem) P(std::move(*o)); }
void w_cp_move_ctor_conv(P* mem, PD* o) { new (mem) P(std::move(*o)); }
void w_cp_copy_assign(P* a, const P* b) { *a = *b; }
void w_cp_copy_assign_conv(P* a, const PD* b) { *a = *b; }
void w_cp_move_assign(P* a, P* b) { *a = std::move(*b); }
void w_cp_move_assign_conv(P* a, PD* b) { *a = std::move(*b); }
void w_cp_dtor(P* a) { a->~P(); }
void w_cp_reset(P* a) { a->reset(); }
void w_cp_swap(P* a, P* b) { a->swap(*b); }
void w_cp_swap_free(P* a, P* b) { tlx::swap(*a, *b); }
void w_cp_unify(P* a) { a->unify(); }
Obj* w_cp_get(const P* a) { return a->get(); }
bool w_cp_valid(const P* a) { return a->valid(); }
bool w_cp_bool(const P* a) { return static_cast<bool>(*a); }
bool w_cp_empty(const P* a) { return a->empty(); }
bool w_cp_unique(const P* a) { return a->unique(); }
size_t w_cp_use_count(const P* a) { return a->use_count(); }
bool w_cp_eq(const P* a, const P* b) { return *a == *b; }
bool w_cp_ne(const P* a, const P* b) { return *a != *b; }
bool w_cp_eq_ptr(const P* a, Obj* b) { return *a == b; }
bool w_cp_ne_ptr(const P* a, Obj* b) { return *a != b; }
void w_cp_make_counting(P* mem, int payload) { new (mem) P(tlx::make_counting<Obj>(payload)); }
// ReferenceCounter itself
void w_rc_inc(const Obj* o) { o->inc_reference(); }
bool w_rc_dec(const Obj* o) { return o->dec_reference(); }
bool w_rc_unique(const Obj* o) { return o->unique(); }
size_t w_rc_count(const Obj* o) { return o->reference_count(); }
}
