// shim for C18: extern "C" forwarding wrappers around tlx::StringView queries.  A view is passed as (pointer, length).
#include <cstddef>
#include <cstring>
#include <string>
#include <tlx/container/string_view.hpp>
template class std::basic_string<char>;   // force the libstdc++ string members used by to_string() into this TU
typedef tlx::StringView SV;
typedef const char* cp;
extern "C" {
int w_sv_compare(cp a, size_t an, cp b, size_t bn) { return SV(a, an).compare(SV(b, bn)); }
int w_sv_compare_pn(cp a, size_t an, size_t pos1, size_t n1, cp b, size_t bn) { return SV(a, an).compare(pos1, n1, SV(b, bn)); }
int w_sv_compare_pnpn(cp a, size_t an, size_t pos1, size_t n1, cp b, size_t bn, size_t pos2, size_t n2) { return SV(a, an).compare(pos1, n1, SV(b, bn), pos2, n2); }
int w_sv_compare_cstr(cp a, size_t an, cp z) { return SV(a, an).compare(z); }
int w_sv_compare_pn_cstr(cp a, size_t an, size_t pos1, size_t n1, cp z) { return SV(a, an).compare(pos1, n1, z); }
int w_sv_compare_pn_cstrn(cp a, size_t an, size_t pos1, size_t n1, cp b, size_t n2) { return SV(a, an).compare(pos1, n1, b, n2); }
bool w_sv_eq(cp a, size_t an, cp b, size_t bn) { return SV(a, an) == SV(b, bn); }
bool w_sv_ne(cp a, size_t an, cp b, size_t bn) { return SV(a, an) != SV(b, bn); }
bool w_sv_lt(cp a, size_t an, cp b, size_t bn) { return SV(a, an) < SV(b, bn); }
bool w_sv_gt(cp a, size_t an, cp b, size_t bn) { return SV(a, an) > SV(b, bn); }
bool w_sv_le(cp a, size_t an, cp b, size_t bn) { return SV(a, an) <= SV(b, bn); }
bool w_sv_ge(cp a, size_t an, cp b, size_t bn) { return SV(a, an) >= SV(b, bn); }
// mixed relational operators (free functions): op 0 == 1 != 2 < 3 > 4 <= 5 >= ; dir 0: view OP other, dir 1: other OP view
#define MIXSWITCH(L, R) switch (op) { case 0: return (L) == (R); case 1: return (L) != (R); case 2: return (L) < (R); case 3: return (L) > (R); case 4: return (L) <= (R); default: return (L) >= (R); }
bool w_sv_mix_str(int op, int dir, cp a, size_t an, cp b, size_t bn)
{ std::string s(b, bn); SV v(a, an); if (dir == 0) { MIXSWITCH(v, s) } else { MIXSWITCH(s, v) } }
bool w_sv_mix_cstr(int op, int dir, cp a, size_t an, cp b)
{ SV v(a, an); if (dir == 0) { MIXSWITCH(v, b) } else { MIXSWITCH(b, v) } }
bool w_sv_starts_with(cp a, size_t an, cp b, size_t bn) { return SV(a, an).starts_with(SV(b, bn)); }
bool w_sv_starts_with_c(cp a, size_t an, char c) { return SV(a, an).starts_with(c); }
bool w_sv_ends_with(cp a, size_t an, cp b, size_t bn) { return SV(a, an).ends_with(SV(b, bn)); }
bool w_sv_ends_with_c(cp a, size_t an, char c) { return SV(a, an).ends_with(c); }
// the six search families: needle as view / char / (pointer, n) / NUL-terminated string
#define FAMILY(name)                                                                                             \
    size_t w_sv_##name(cp a, size_t an, cp b, size_t bn, size_t pos) { return SV(a, an).name(SV(b, bn), pos); }    \
    size_t w_sv_##name##_c(cp a, size_t an, char c, size_t pos) { return SV(a, an).name(c, pos); }                \
    size_t w_sv_##name##_pn(cp a, size_t an, cp b, size_t pos, size_t n) { return SV(a, an).name(b, pos, n); }    \
    size_t w_sv_##name##_z(cp a, size_t an, cp z, size_t pos) { return SV(a, an).name(z, pos); }
FAMILY(find)
FAMILY(rfind)
FAMILY(find_first_of)
FAMILY(find_last_of)
FAMILY(find_first_not_of)
FAMILY(find_last_not_of)
// substr: result view written to (*rp, *rn)
void w_sv_substr(cp a, size_t an, size_t pos, size_t n, cp* rp, size_t* rn) { SV r = SV(a, an).substr(pos, n); *rp = r.data(); *rn = r.size(); }
size_t w_sv_copy(cp a, size_t an, char* dst, size_t n, size_t pos) { return SV(a, an).copy(dst, n, pos); }
char w_sv_at(cp a, size_t an, size_t pos) { return SV(a, an).at(pos); }
char w_sv_index(cp a, size_t an, size_t pos) { return SV(a, an)[pos]; }
char w_sv_front(cp a, size_t an) { return SV(a, an).front(); }
char w_sv_back(cp a, size_t an) { return SV(a, an).back(); }
void w_sv_remove_prefix(cp a, size_t an, size_t n, cp* rp, size_t* rn) { SV r(a, an); r.remove_prefix(n); *rp = r.data(); *rn = r.size(); }
void w_sv_remove_suffix(cp a, size_t an, size_t n, cp* rp, size_t* rn) { SV r(a, an); r.remove_suffix(n); *rp = r.data(); *rn = r.size(); }
size_t w_sv_size(cp a, size_t an) { return SV(a, an).size() + SV(a, an).length() - SV(a, an).size(); }
bool w_sv_empty(cp a, size_t an) { return SV(a, an).empty(); }
// NUL-terminated constructor
size_t w_sv_from_cstr(cp z, cp* rp) { SV r(z); *rp = r.data(); return r.size(); }
// conversion to std::string: the characters of the result are copied out
size_t w_sv_to_string(cp a, size_t an, char* out) { std::string s = SV(a, an).to_string(); std::memcpy(out, s.data(), s.size()); return s.size(); }
size_t w_sv_to_string_op(cp a, size_t an, char* out) { std::string s = static_cast<std::string>(SV(a, an)); std::memcpy(out, s.data(), s.size()); return s.size(); }
}
