// shim for C16: RingBuffer<Elem> and SimpleVector<Elem, Mode> over an element type whose special members report to
// the ghost lifetime ledger of the contract file (extern "C" hooks).  Nothing else is added to the tlx code.
#include <cstddef>
#include <new>
#include <utility>
#include <tlx/container/ring_buffer.hpp>
#include <tlx/container/simple_vector.hpp>

extern "C" void vf_ctor(void* slot, int val);
extern "C" void vf_dtor(void* slot);
extern "C" void vf_assign(void* slot, int val);

struct Elem {
    int v;
    Elem() : v(0) { vf_ctor(this, v); }
    Elem(int x) : v(x) { vf_ctor(this, v); }
    Elem(const Elem& o) : v(o.v) { vf_ctor(this, v); }
    Elem(Elem&& o) noexcept : v(o.v) { vf_ctor(this, v); }
    Elem& operator=(const Elem& o) { v = o.v; vf_assign(this, v); return *this; }
    Elem& operator=(Elem&& o) noexcept { v = o.v; vf_assign(this, v); return *this; }
    ~Elem() { vf_dtor(this); }
};

typedef tlx::RingBuffer<Elem> RB;
extern "C" {
void w_rb_ctor_default(RB* mem) { new (mem) RB(); }
void w_rb_ctor(RB* mem, size_t max_size) { new (mem) RB(max_size); }
void w_rb_copy_ctor(RB* mem, const RB* o) { new (mem) RB(*o); }
void w_rb_move_ctor(RB* mem, RB* o) { new (mem) RB(std::move(*o)); }
void w_rb_copy_assign(RB* a, const RB* b) { *a = *b; }
void w_rb_move_assign(RB* a, RB* b) { *a = std::move(*b); }
void w_rb_dtor(RB* a) { a->~RB(); }
void w_rb_allocate(RB* a, size_t max_size) { a->allocate(max_size); }
void w_rb_deallocate(RB* a) { a->deallocate(); }
void w_rb_push_back_copy(RB* rb, const Elem* v) { rb->push_back(*v); }
void w_rb_push_back_move(RB* rb, Elem* v) { rb->push_back(std::move(*v)); }
void w_rb_emplace_back(RB* rb, int x) { rb->emplace_back(x); }
void w_rb_push_front_copy(RB* rb, const Elem* v) { rb->push_front(*v); }
void w_rb_push_front_move(RB* rb, Elem* v) { rb->push_front(std::move(*v)); }
void w_rb_emplace_front(RB* rb, int x) { rb->emplace_front(x); }
void w_rb_pop_back(RB* rb) { rb->pop_back(); }
void w_rb_pop_front(RB* rb) { rb->pop_front(); }
void w_rb_clear(RB* rb) { rb->clear(); }
Elem* w_rb_at(RB* rb, size_t i) { return &(*rb)[i]; }
Elem* w_rb_front(RB* rb) { return &rb->front(); }
Elem* w_rb_back(RB* rb) { return &rb->back(); }
size_t w_rb_size(const RB* rb) { return rb->size(); }
bool w_rb_empty(const RB* rb) { return rb->empty(); }
size_t w_rb_max_size(const RB* rb) { return rb->max_size(); }
size_t w_rb_capacity(const RB* rb) { return rb->capacity(); }
}

typedef tlx::SimpleVector<Elem, tlx::SimpleVectorMode::Normal> SV;
typedef tlx::SimpleVector<Elem, tlx::SimpleVectorMode::NoInitButDestroy> SVD;
typedef tlx::SimpleVector<Elem, tlx::SimpleVectorMode::NoInitNoDestroy> SVN;
extern "C" {
void w_sv_ctor_default(SV* mem) { new (mem) SV(); }
void w_sv_ctor(SV* mem, size_t n) { new (mem) SV(n); }
void w_sv_move_ctor(SV* mem, SV* o) { new (mem) SV(std::move(*o)); }
void w_sv_move_assign(SV* a, SV* b) { *a = std::move(*b); }
void w_sv_swap(SV* a, SV* b) { a->swap(*b); }
void w_sv_dtor(SV* a) { a->~SV(); }
void w_sv_resize(SV* a, size_t n) { a->resize(n); }
void w_sv_destroy(SV* a) { a->destroy(); }
void w_sv_fill(SV* a, const Elem* v) { a->fill(*v); }
size_t w_sv_size(const SV* a) { return a->size(); }
Elem* w_sv_at(SV* a, size_t i) { return &(*a)[i]; }
void w_svd_ctor(SVD* mem, size_t n) { new (mem) SVD(n); }
void w_svd_dtor(SVD* a) { a->~SVD(); }
void w_svn_ctor(SVN* mem, size_t n) { new (mem) SVN(n); }
void w_svn_dtor(SVN* a) { a->~SVN(); }
}
