// shim for C20: extern "C" forwarding wrappers around the real tlx/math functions (nothing else).
#include <cstdint>
#include <cstddef>
#include <tlx/math/clz.hpp>
#include <tlx/math/ctz.hpp>
#include <tlx/math/ffs.hpp>
#include <tlx/math/popcount.hpp>
#include <tlx/math/integer_log2.hpp>
#include <tlx/math/is_power_of_two.hpp>
#include <tlx/math/round_to_power_of_two.hpp>
#include <tlx/math/bswap.hpp>
#include <tlx/math/rol.hpp>
#include <tlx/math/ror.hpp>
#include <tlx/math/div_ceil.hpp>
#include <tlx/math/round_up.hpp>
#include <tlx/math/abs_diff.hpp>
#include <tlx/math/sgn.hpp>

typedef unsigned long long ull;
typedef long long ll;
typedef unsigned long ul;

// one wrapper per overload: suffixes i32=int u32=unsigned il=long ul=unsigned long ill=long long ull=unsigned long long
#define SIX(R, name, expr)                                                 \
    extern "C" R w_##name##_i32(int x) { return expr; }                    \
    extern "C" R w_##name##_u32(unsigned x) { return expr; }               \
    extern "C" R w_##name##_il(long x) { return expr; }                    \
    extern "C" R w_##name##_ul(unsigned long x) { return expr; }           \
    extern "C" R w_##name##_ill(long long x) { return expr; }              \
    extern "C" R w_##name##_ull(unsigned long long x) { return expr; }

SIX(unsigned, clz, tlx::clz(x))
SIX(unsigned, ctz, tlx::ctz(x))
SIX(unsigned, ffs, tlx::ffs(x))
SIX(unsigned, popcount, tlx::popcount(x))
SIX(unsigned, log2floor, tlx::integer_log2_floor(x))
SIX(unsigned, log2ceil, tlx::integer_log2_ceil(x))
SIX(bool, ispow2, tlx::is_power_of_two(x))
#define SIXT(name, expr)                                                    \
    extern "C" int w_##name##_i32(int x) { return expr; }                  \
    extern "C" unsigned w_##name##_u32(unsigned x) { return expr; }        \
    extern "C" long w_##name##_il(long x) { return expr; }                 \
    extern "C" ul w_##name##_ul(unsigned long x) { return expr; }          \
    extern "C" ll w_##name##_ill(long long x) { return expr; }             \
    extern "C" ull w_##name##_ull(unsigned long long x) { return expr; }
SIXT(rup2, tlx::round_up_to_power_of_two(x))
SIXT(rdown2, tlx::round_down_to_power_of_two(x))

// the portable fall-back templates, for every width that can be instantiated
#define WIDTHS(R, name, expr)                                              \
    extern "C" R w_##name##_t_u8(std::uint8_t x) { return expr; }          \
    extern "C" R w_##name##_t_u16(std::uint16_t x) { return expr; }        \
    extern "C" R w_##name##_t_u32(std::uint32_t x) { return expr; }        \
    extern "C" R w_##name##_t_u64(std::uint64_t x) { return expr; }
WIDTHS(unsigned, clz, tlx::clz_template(x))
WIDTHS(unsigned, ctz, tlx::ctz_template(x))
WIDTHS(unsigned, ffs, tlx::ffs_template(x))
WIDTHS(unsigned, log2floor, tlx::integer_log2_floor_template(x))
extern "C" std::uint8_t w_rup2_t_u8(std::uint8_t x) { return tlx::round_up_to_power_of_two_template(x); }
extern "C" std::uint16_t w_rup2_t_u16(std::uint16_t x) { return tlx::round_up_to_power_of_two_template(x); }
extern "C" std::uint32_t w_rup2_t_u32(std::uint32_t x) { return tlx::round_up_to_power_of_two_template(x); }
extern "C" std::uint64_t w_rup2_t_u64(std::uint64_t x) { return tlx::round_up_to_power_of_two_template(x); }
extern "C" unsigned w_log2floor_t_i32(int x) { return tlx::integer_log2_floor_template(x); }
extern "C" unsigned w_log2floor_t_i64(long long x) { return tlx::integer_log2_floor_template(x); }
extern "C" bool w_ispow2_t_u8(std::uint8_t x) { return tlx::is_power_of_two_template(x); }
extern "C" bool w_ispow2_t_u16(std::uint16_t x) { return tlx::is_power_of_two_template(x); }
extern "C" bool w_ispow2_t_i8(std::int8_t x) { return tlx::is_power_of_two_template(x); }
extern "C" bool w_ispow2_t_i16(std::int16_t x) { return tlx::is_power_of_two_template(x); }

extern "C" unsigned w_popcount_g8(std::uint8_t x) { return tlx::popcount_generic8(x); }
extern "C" unsigned w_popcount_g16(std::uint16_t x) { return tlx::popcount_generic16(x); }
extern "C" unsigned w_popcount_g32(std::uint32_t x) { return tlx::popcount_generic32(x); }
extern "C" unsigned w_popcount_g64(std::uint64_t x) { return tlx::popcount_generic64(x); }
extern "C" size_t w_popcount_range(const void* data, size_t size) { return tlx::popcount(data, size); }

extern "C" std::uint16_t w_bswap16(std::uint16_t x) { return tlx::bswap16(x); }
extern "C" std::uint32_t w_bswap32(std::uint32_t x) { return tlx::bswap32(x); }
extern "C" std::uint64_t w_bswap64(std::uint64_t x) { return tlx::bswap64(x); }
extern "C" std::uint16_t w_bswap16_generic(std::uint16_t x) { return tlx::bswap16_generic(x); }
extern "C" std::uint32_t w_bswap32_generic(std::uint32_t x) { return tlx::bswap32_generic(x); }
extern "C" std::uint64_t w_bswap64_generic(std::uint64_t x) { return tlx::bswap64_generic(x); }

extern "C" std::uint32_t w_rol32(std::uint32_t x, int i) { return tlx::rol32(x, i); }
extern "C" std::uint64_t w_rol64(std::uint64_t x, int i) { return tlx::rol64(x, i); }
extern "C" std::uint32_t w_ror32(std::uint32_t x, int i) { return tlx::ror32(x, i); }
extern "C" std::uint64_t w_ror64(std::uint64_t x, int i) { return tlx::ror64(x, i); }
extern "C" std::uint32_t w_rol32_generic(std::uint32_t x, int i) { return tlx::rol32_generic(x, i); }
extern "C" std::uint64_t w_rol64_generic(std::uint64_t x, int i) { return tlx::rol64_generic(x, i); }
extern "C" std::uint32_t w_ror32_generic(std::uint32_t x, int i) { return tlx::ror32_generic(x, i); }
extern "C" std::uint64_t w_ror64_generic(std::uint64_t x, int i) { return tlx::ror64_generic(x, i); }

// div_ceil / round_up: result type is decltype(n + k)
#define DIVK(sfx, T)                                                                   \
    extern "C" decltype(T() + T()) w_div_ceil_##sfx(T n, T k) { return tlx::div_ceil(n, k); } \
    extern "C" decltype(T() + T()) w_round_up_##sfx(T n, T k) { return tlx::round_up(n, k); }
DIVK(u8, std::uint8_t)
DIVK(u16, std::uint16_t)
DIVK(u32, std::uint32_t)
DIVK(u64, std::uint64_t)
DIVK(i8, std::int8_t)
DIVK(i16, std::int16_t)
DIVK(i32, std::int32_t)
DIVK(i64, std::int64_t)

#define ABSD(sfx, T)                                                       \
    extern "C" T w_abs_diff_##sfx(T a, T b) { return tlx::abs_diff(a, b); } \
    extern "C" int w_sgn_##sfx(T a) { return tlx::sgn(a); }
ABSD(u8, std::uint8_t)
ABSD(u16, std::uint16_t)
ABSD(u32, std::uint32_t)
ABSD(u64, std::uint64_t)
ABSD(i8, std::int8_t)
ABSD(i16, std::int16_t)
ABSD(i32, std::int32_t)
ABSD(i64, std::int64_t)
