// shim for C13: DAryHeap / DAryAddressableIntHeap over uint32_t keys, one configuration per extraction:
//   -DARITY=<1..8>   -DCMP_PRIO=<0|1>  (0: std::less<uint32_t>, 1: comparator reading an external priority table)
#include <cstdint>
#include <cstddef>
#include <functional>
#include <vector>
#include <tlx/container/d_ary_heap.hpp>
#include <tlx/container/d_ary_addressable_int_heap.hpp>
#ifndef ARITY
#define ARITY 2
#endif
typedef std::uint32_t K;
struct PrioCmp {
    const K* prio;
    bool operator()(const K& a, const K& b) const { return prio[a] < prio[b]; }
};
#if CMP_PRIO
typedef PrioCmp Cmp;
#else
typedef std::less<K> Cmp;
#endif
typedef tlx::DAryHeap<K, ARITY, Cmp> DH;
typedef tlx::DAryAddressableIntHeap<K, ARITY, Cmp> AH;
typedef std::vector<K> Vec;
extern "C" {
// DAryAddressableIntHeap
void w_ah_push(AH* h, K k) { h->push(k); }
void w_ah_push_move(AH* h, K k) { h->push(std::move(k)); }
void w_ah_pop(AH* h) { h->pop(); }
K w_ah_extract_top(AH* h) { return h->extract_top(); }
K w_ah_top(const AH* h) { return h->top(); }
void w_ah_remove(AH* h, K k) { h->remove(k); }
void w_ah_update(AH* h, K k) { h->update(k); }
void w_ah_update_all(AH* h) { h->update_all(); }
void w_ah_clear(AH* h) { h->clear(); }
bool w_ah_contains(const AH* h, K k) { return h->contains(k); }
size_t w_ah_size(const AH* h) { return h->size(); }
bool w_ah_empty(const AH* h) { return h->empty(); }
bool w_ah_sanity_check(AH* h) { return h->sanity_check(); }
void w_ah_build_range(AH* h, const K* first, const K* last) { h->build_heap(first, last); }
void w_ah_build_copy(AH* h, const Vec* keys) { h->build_heap(*keys); }
void w_ah_build_move(AH* h, Vec* keys) { h->build_heap(std::move(*keys)); }
// DAryHeap
void w_dh_push(DH* h, K k) { h->push(k); }
void w_dh_push_move(DH* h, K k) { h->push(std::move(k)); }
void w_dh_pop(DH* h) { h->pop(); }
K w_dh_extract_top(DH* h) { return h->extract_top(); }
K w_dh_top(const DH* h) { return h->top(); }
void w_dh_update_all(DH* h) { h->update_all(); }
void w_dh_clear(DH* h) { h->clear(); }
size_t w_dh_size(const DH* h) { return h->size(); }
bool w_dh_empty(const DH* h) { return h->empty(); }
bool w_dh_sanity_check(DH* h) { return h->sanity_check(); }
void w_dh_build_range(DH* h, const K* first, const K* last) { h->build_heap(first, last); }
void w_dh_build_copy(DH* h, const Vec* keys) { h->build_heap(*keys); }
void w_dh_build_move(DH* h, Vec* keys) { h->build_heap(std::move(*keys)); }
}
