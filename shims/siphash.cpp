// C14 (SipHash part): the portable SipHash-2-4 of tlx/siphash.hpp
#include <tlx/siphash.hpp>
extern "C" {
uint64_t w_siphash_plain(const uint8_t* key, const uint8_t* m, size_t len) { return tlx::siphash_plain(key, m, len); }
}
