// shim for C05: sequential multiway merge entry points and algorithm variants, one per extraction:
//   -DENTRY=<n> (see below) -DSTABLE=<0|1> -DBIG=<0|1> (element size selects copy- or pointer-based loser trees)
#include <cstdint>
#include <cstddef>
#include <utility>
#include <tlx/algorithm/multiway_merge.hpp>
#include <tlx/algorithm/merge_advance.hpp>
#if BIG
struct E { std::uint8_t key; std::uint8_t tag; char pad[38]; };
#else
struct E { std::uint8_t key; std::uint8_t tag; };
#endif
struct ByKey { bool operator()(const E& a, const E& b) const { return a.key < b.key; } };
typedef std::pair<E*, E*> Seq;
using namespace tlx;
using namespace tlx::multiway_merge_detail;
extern "C" E* w_mm(Seq* seqs, unsigned k, E* target, long size, int mwma)
{
    ByKey cmp;
#if ENTRY == 0      // multiway_merge_base<Stable, no sentinels> with a run-time algorithm choice
    return multiway_merge_base<STABLE, false>(seqs, seqs + k, target, size, cmp, static_cast<MultiwayMergeAlgorithm>(mwma));
#elif ENTRY == 1    // multiway_merge_base<Stable, sentinels>
    return multiway_merge_base<STABLE, true>(seqs, seqs + k, target, size, cmp, static_cast<MultiwayMergeAlgorithm>(mwma));
#elif ENTRY == 2
    return multiway_merge_bubble<STABLE>(seqs, seqs + k, target, size, cmp);
#elif ENTRY == 3
    return multiway_merge_loser_tree<LoserTree<STABLE, E, ByKey> >(seqs, seqs + k, target, size, cmp);
#elif ENTRY == 4
    return multiway_merge_loser_tree_combined<STABLE>(seqs, seqs + k, target, size, cmp);
#elif ENTRY == 5
    return multiway_merge_loser_tree_sentinel<STABLE>(seqs, seqs + k, target, size, cmp);
#elif ENTRY == 6    // public entry points
#if STABLE
    return stable_multiway_merge(seqs, seqs + k, target, size, cmp);
#else
    return multiway_merge(seqs, seqs + k, target, size, cmp);
#endif
#elif ENTRY == 7
#if STABLE
    return stable_multiway_merge_sentinels(seqs, seqs + k, target, size, cmp);
#else
    return multiway_merge_sentinels(seqs, seqs + k, target, size, cmp);
#endif
#elif ENTRY == 8    // merge_advance (k = 2)
    return merge_advance(seqs[0].first, seqs[0].second, seqs[1].first, seqs[1].second, target, size, cmp);
#endif
}
