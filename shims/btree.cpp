// shim for C01/C02: one B+ tree configuration per extraction:
//   -DLS=<leaf slots> -DIS=<inner slots> -DBIN=<0 linear | 1 binary in-node search> -DMULTI=<0|1> -DMAP=<0|1> -DGREATER=<0|1>
#include <cstddef>
#include <functional>
#include <new>
#include <utility>
#include <tlx/container/btree_set.hpp>
#include <tlx/container/btree_multiset.hpp>
#include <tlx/container/btree_map.hpp>
#include <tlx/container/btree_multimap.hpp>
#ifndef LS
#define LS 4
#endif
#ifndef IS
#define IS 4
#endif
template <typename K, typename V>
struct Traits : tlx::btree_default_traits<K, V> {
    static const bool self_verify = false;
    static const bool debug = false;
    static const int leaf_slots = LS;
    static const int inner_slots = IS;
    static const size_t binsearch_threshold = BIN ? 0 : 1 << 20;
};
typedef unsigned char KEY;     // 8-bit keys keep the solver's order reasoning small; the tree code is generic in the key type
#if GREATER
typedef std::greater<KEY> Cmp;
#else
typedef std::less<KEY> Cmp;
#endif
#if MAP
#if MULTI
typedef tlx::btree_multimap<KEY, int, Cmp, Traits<KEY, std::pair<KEY, int> > > BT;
#else
typedef tlx::btree_map<KEY, int, Cmp, Traits<KEY, std::pair<KEY, int> > > BT;
#endif
#define VAL(k, v) BT::value_type(k, v)
#define KEYOF(x) ((x).first)
#else
#if MULTI
typedef tlx::btree_multiset<KEY, Cmp, Traits<KEY, KEY> > BT;
#else
typedef tlx::btree_set<KEY, Cmp, Traits<KEY, KEY> > BT;
#endif
#define VAL(k, v) (k)
#define KEYOF(x) (x)
#endif
#ifdef TLX_VERIF_NATIVE   // the native replay links this TU alone
#include <tlx/die/core.cpp>
#endif
struct Pos { const void* leaf; unsigned short slot; };   // an iterator position
static Pos pos_of(const BT::const_iterator& it) { Pos p; p.leaf = it.curr_leaf; p.slot = it.curr_slot; return p; }
extern "C" {
void w_bt_ctor(BT* t) { new (t) BT(); }
void w_bt_dtor(BT* t) { t->~BT(); }
void w_bt_clear(BT* t) { t->clear(); }
#if MULTI
bool w_bt_insert(BT* t, KEY k, int v, Pos* at) { BT::iterator it = t->insert(VAL(k, v)); *at = pos_of(it); return true; }
#else
bool w_bt_insert(BT* t, KEY k, int v, Pos* at) { std::pair<BT::iterator, bool> r = t->insert(VAL(k, v)); *at = pos_of(r.first); return r.second; }
#endif
bool w_bt_erase_one(BT* t, KEY k) { return t->erase_one(k); }
void w_bt_erase_iter(BT* t, const void* leaf, unsigned short slot) { BT::iterator it = t->begin(); it.curr_leaf = (decltype(it.curr_leaf))leaf; it.curr_slot = slot; t->erase(it); }
size_t w_bt_erase(BT* t, KEY k) { return t->erase(k); }
bool w_bt_exists(const BT* t, KEY k) { return t->exists(k); }
size_t w_bt_count(const BT* t, KEY k) { return t->count(k); }
void w_bt_find(const BT* t, KEY k, Pos* at) { *at = pos_of(t->find(k)); }
void w_bt_lower_bound(const BT* t, KEY k, Pos* at) { *at = pos_of(t->lower_bound(k)); }
void w_bt_upper_bound(const BT* t, KEY k, Pos* at) { *at = pos_of(t->upper_bound(k)); }
void w_bt_begin(const BT* t, Pos* at) { *at = pos_of(t->begin()); }
void w_bt_end(const BT* t, Pos* at) { *at = pos_of(t->end()); }
size_t w_bt_size(const BT* t) { return t->size(); }
bool w_bt_empty(const BT* t) { return t->empty(); }
void w_bt_verify(const BT* t) { t->verify(); }
// one iterator step forward / backward from a position
// ---- node primitives (Layer A): private members reached with -fno-access-control ----
typedef BT::btree_impl Impl;
typedef Impl::LeafNode LeafN;
typedef Impl::InnerNode InnerN;
struct Res { unsigned flags; KEY lastkey; };
static Res res_of(const Impl::result_t& r) { Res x; x.flags = r.flags; x.lastkey = r.lastkey; return x; }
unsigned short w_bt_find_lower_leaf(const BT* t, const LeafN* n, KEY k) { return t->tree_.find_lower(n, k); }
unsigned short w_bt_find_lower_inner(const BT* t, const InnerN* n, KEY k) { return t->tree_.find_lower(n, k); }
unsigned short w_bt_find_upper_leaf(const BT* t, const LeafN* n, KEY k) { return t->tree_.find_upper(n, k); }
unsigned short w_bt_find_upper_inner(const BT* t, const InnerN* n, KEY k) { return t->tree_.find_upper(n, k); }
void w_bt_shift_left_leaf(LeafN* l, LeafN* r, InnerN* p, unsigned ps, Res* out) { *out = res_of(Impl::shift_left_leaf(l, r, p, ps)); }
void w_bt_shift_right_leaf(LeafN* l, LeafN* r, InnerN* p, unsigned ps) { Impl::shift_right_leaf(l, r, p, ps); }
void w_bt_shift_left_inner(InnerN* l, InnerN* r, InnerN* p, unsigned ps) { Impl::shift_left_inner(l, r, p, ps); }
void w_bt_shift_right_inner(InnerN* l, InnerN* r, InnerN* p, unsigned ps) { Impl::shift_right_inner(l, r, p, ps); }
void w_bt_merge_leaves(BT* t, LeafN* l, LeafN* r, InnerN* p, Res* out) { *out = res_of(t->tree_.merge_leaves(l, r, p)); }
void w_bt_merge_inner(InnerN* l, InnerN* r, InnerN* p, unsigned ps, Res* out) { *out = res_of(Impl::merge_inner(l, r, p, ps)); }
void w_bt_split_leaf(BT* t, LeafN* leaf, KEY* newkey, void** newleaf) { Impl::node* n = nullptr; t->tree_.split_leaf_node(leaf, newkey, &n); *newleaf = n; }
void w_bt_split_inner(BT* t, InnerN* inner, KEY* newkey, void** newinner, unsigned addslot) { Impl::node* n = nullptr; t->tree_.split_inner_node(inner, newkey, &n, addslot); *newinner = n; }
void w_bt_next(BT* t, Pos* at) { BT::iterator it = t->begin(); it.curr_leaf = (decltype(it.curr_leaf))at->leaf; it.curr_slot = at->slot; ++it; *at = pos_of(it); }
void w_bt_prev(BT* t, Pos* at) { BT::iterator it = t->begin(); it.curr_leaf = (decltype(it.curr_leaf))at->leaf; it.curr_slot = at->slot; --it; *at = pos_of(it); }
}
