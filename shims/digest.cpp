// shim for C14: one digest per extraction (-DDG=0 MD5, 1 SHA1, 2 SHA256, 3 SHA512).  The .cpp is included so that the
// file-local helpers (compress function, load/store, round functions) are part of the extracted translation unit.
#include <cstdint>
#include <cstddef>
#include <new>
#if DG == 0
#include <tlx/digest/md5.cpp>
typedef tlx::MD5 D; typedef std::uint32_t WORD;
#define COMPRESS tlx::digest_detail::md5_compress
#elif DG == 1
#include <tlx/digest/sha1.cpp>
typedef tlx::SHA1 D; typedef std::uint32_t WORD;
#define COMPRESS tlx::digest_detail::sha1_compress
#elif DG == 2
#include <tlx/digest/sha256.cpp>
typedef tlx::SHA256 D; typedef std::uint32_t WORD;
#define COMPRESS tlx::sha256_compress
#else
#include <tlx/digest/sha512.cpp>
typedef tlx::SHA512 D; typedef std::uint64_t WORD;
#define COMPRESS tlx::digest_detail::sha512_compress
#endif
#ifdef TLX_VERIF_NATIVE   // the native replay links this TU alone: the hex wrappers of the digest classes need hexdump
#include <tlx/string/hexdump.cpp>
#endif
extern "C" {
void w_dg_init(D* d) { new (d) D(); }
void w_dg_process(D* d, const void* data, std::uint32_t size) { d->process(data, size); }
void w_dg_finalize(D* d, void* out) { d->finalize(out); }
void w_dg_compress(WORD* state, const std::uint8_t* buf) { COMPRESS(state, buf); }
}
