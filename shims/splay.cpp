// shim for C17 (SplayTree part): SplayTree<uint8_t, std::less, DUP> and the free splay functions on its nodes.
#include <cstdint>
#include <cstddef>
#include <functional>
#include <new>
#include <tlx/container/splay_tree.hpp>
typedef std::uint8_t K;
#ifndef DUP
#define DUP 0
#endif
typedef tlx::SplayTree<K, std::less<K>, DUP != 0> ST;
typedef ST::Node Node;
extern "C" {
void w_st_ctor(ST* t) { new (t) ST(); }
void w_st_dtor(ST* t) { t->~ST(); }
bool w_st_insert(ST* t, K k) { return t->insert(k); }
bool w_st_erase(ST* t, K k) { return t->erase(k); }
bool w_st_exists(ST* t, K k) { return t->exists(k); }
Node* w_st_find(ST* t, K k) { return t->find(k); }
void w_st_clear(ST* t) { t->clear(); }
size_t w_st_size(const ST* t) { return t->size(); }
bool w_st_empty(const ST* t) { return t->empty(); }
bool w_st_check(const ST* t) { return t->check(); }
// in-order traversal into a buffer (traverse_preorder is, despite its name, the in-order visit)
size_t w_st_traverse(const ST* t, K* out, size_t cap) { size_t n = 0; t->traverse_preorder([&](const K& k) { if (n < cap) out[n] = k; n++; }); return n; }
Node* w_splay(K k, Node* t) { return tlx::splay(k, t, std::less<K>()); }
}
