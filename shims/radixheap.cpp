// C13 (RadixHeap part): the leaf functions every RadixHeap<.., KeyType, Radix> operation is built from.
//   -DKEY_T=<integral type>  -DRADIX=<2|4|8|16|32|64>
#include <tlx/container/radix_heap.hpp>
#include <cstdint>
#include <new>
using namespace tlx::radix_heap_detail;
typedef KEY_T K;
typedef IntegerRank<K> Enc;
typedef Enc::rank_type R;
typedef BucketComputation<RADIX, R> BC;
typedef BitArray<BC::num_buckets> BA;

extern "C" {
// keys and ranks travel as raw 64-bit patterns; the casts select the instantiation under test
uint64_t w_rh_rank(uint64_t i) { return Enc::rank_of_int(static_cast<K>(i)); }
uint64_t w_rh_unrank(uint64_t r) { return static_cast<uint64_t>(static_cast<int64_t>(Enc::int_at_rank(static_cast<R>(r)))); }
uint64_t w_rh_bucket(uint64_t x, uint64_t lim) { BC bc; return bc(static_cast<R>(x), static_cast<R>(lim)); }
uint64_t w_rh_num_buckets() { return BC::num_buckets; }
uint64_t w_rh_lower(uint64_t idx) { BC bc; return bc.lower_bound(idx); }
uint64_t w_rh_upper(uint64_t idx) { BC bc; return bc.upper_bound(idx); }

uint64_t w_ba_sizeof() { return sizeof(BA); }
void w_ba_ctor(BA* b) { new (b) BA(); }
void w_ba_set(BA* b, uint64_t i) { b->set_bit(i); }
void w_ba_clear(BA* b, uint64_t i) { b->clear_bit(i); }
bool w_ba_is_set(const BA* b, uint64_t i) { return b->is_set(i); }
void w_ba_clear_all(BA* b) { b->clear_all(); }
bool w_ba_empty(const BA* b) { return b->empty(); }
uint64_t w_ba_find_lsb(const BA* b) { return b->find_lsb(); }
}

// ---- the heap itself (values are their own keys) ----
struct Ident { K operator()(const K& v) const { return v; } };
typedef tlx::RadixHeap<K, Ident, K, RADIX> RH;
extern "C" {
uint64_t w_rhh_sizeof() { return sizeof(RH); }
void w_rhh_initialize(RH* h) { h->initialize_(); }
uint64_t w_rhh_push(RH* h, uint64_t key) { return h->push(static_cast<K>(key)); }
uint64_t w_rhh_top(RH* h) { return static_cast<uint64_t>(static_cast<int64_t>(h->top())); }
void w_rhh_pop(RH* h) { h->pop(); }
uint64_t w_rhh_peak_top_key(const RH* h) { return static_cast<uint64_t>(static_cast<int64_t>(h->peak_top_key())); }
void w_rhh_clear(RH* h) { h->clear(); }
uint64_t w_rhh_size(const RH* h) { return h->size(); }
bool w_rhh_empty(const RH* h) { return h->empty(); }
}
