// shim for C11 (safety fragment): tlx::Semaphore and tlx::ThreadBarrierMutex as sequential monitor code.
#include <cstddef>
#include <new>
#include <tlx/semaphore.hpp>
#include <tlx/thread_barrier_mutex.hpp>
extern "C" void vf_barrier_action(void);
typedef tlx::Semaphore Sem;
typedef tlx::ThreadBarrierMutex Bar;
extern "C" {
size_t w_sem_signal(Sem* s) { return s->signal(); }
size_t w_sem_signal_n(Sem* s, size_t n) { return s->signal(n); }
size_t w_sem_wait(Sem* s, size_t delta, size_t slack) { return s->wait(delta, slack); }
bool w_sem_try_acquire(Sem* s, size_t delta, size_t slack) { return s->try_acquire(delta, slack); }
size_t w_sem_value(const Sem* s) { return s->value(); }
void w_bar_wait(Bar* b) { b->wait([]() { vf_barrier_action(); }); }
size_t w_bar_step(const Bar* b) { return b->step(); }
}
