// shim for C20 (Aggregate): extern "C" forwarding wrappers around the real tlx::Aggregate<double> members.
#include <cstddef>
#include <tlx/math/aggregate.hpp>
template class tlx::Aggregate<double>;   // emit every member (the private helpers are addressed directly by contracts and replays)
typedef tlx::Aggregate<double> Agg;
extern "C" void w_agg_init(Agg* a) { new (a) Agg(); }
extern "C" void w_agg_add(Agg* a, double v) { a->add(v); }
extern "C" void w_agg_plus(Agg* out, const Agg* a, const Agg* b) { *out = *a + *b; }
extern "C" void w_agg_pluseq(Agg* a, const Agg* b) { *a += *b; }
extern "C" size_t w_agg_count(const Agg* a) { return a->count(); }
extern "C" double w_agg_min(const Agg* a) { return a->min(); }
extern "C" double w_agg_max(const Agg* a) { return a->max(); }
extern "C" double w_agg_mean(const Agg* a) { return a->mean(); }
extern "C" double w_agg_variance(const Agg* a, size_t ddof) { return a->variance(ddof); }
