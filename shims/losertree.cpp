// shim for C09: one loser tree class per extraction, selected by -DVARIANT=0..7
//   bit 0: stable, bit 1: pointer (else copy), bit 2: unguarded
#include <cstdint>
#include <cstddef>
#include <functional>
#include <new>
#include <tlx/container/loser_tree.hpp>
typedef std::uint32_t K;
#define STABLE ((VARIANT & 1) != 0)
#if (VARIANT & 4) == 0
#if (VARIANT & 2) == 0
typedef tlx::LoserTreeCopy<STABLE, K, std::less<K> > LT;
#else
typedef tlx::LoserTreePointer<STABLE, K, std::less<K> > LT;
#endif
#define UNGUARDED 0
#else
#if (VARIANT & 2) == 0
typedef tlx::LoserTreeCopyUnguarded<STABLE, K, std::less<K> > LT;
#else
typedef tlx::LoserTreePointerUnguarded<STABLE, K, std::less<K> > LT;
#endif
#define UNGUARDED 1
#endif
extern "C" {
#if UNGUARDED
void w_lt_ctor(LT* mem, std::uint32_t k, const K* sentinel) { new (mem) LT(k, *sentinel); }
#else
void w_lt_ctor(LT* mem, std::uint32_t k, const K*) { new (mem) LT(k); }
#endif
std::uint32_t w_lt_min_source(LT* t) { return t->min_source(); }
void w_lt_insert_start(LT* t, const K* keyp, std::uint32_t source, bool sup) { t->insert_start(keyp, source, sup); }
void w_lt_init(LT* t) { t->init(); }
void w_lt_delete_min_insert(LT* t, const K* keyp, bool sup) { t->delete_min_insert(keyp, sup); }
void w_lt_dtor(LT* t) { t->~LT(); }
}
