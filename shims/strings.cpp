// shim for C19: string codecs and helpers.  Strings go in as (pointer, length); std::string results are copied out.
#include <cstddef>
#include <cstring>
#include <string>
#include <vector>
#include <tlx/string/base64.cpp>
#include <tlx/string/hexdump.cpp>
#include <tlx/string/to_lower.cpp>
#include <tlx/string/to_upper.cpp>
#include <tlx/string/trim.cpp>
#include <tlx/string/starts_with.cpp>
#include <tlx/string/ends_with.cpp>
#include <tlx/string/contains.cpp>
#include <tlx/string/compare_icase.cpp>
#include <tlx/string/erase_all.cpp>
#include <tlx/string/replace.cpp>
#include <tlx/string/pad.cpp>
#include <tlx/string/levenshtein.hpp>
template class std::basic_string<char>;
typedef const char* cp;
typedef tlx::string_view SV;
static size_t put(const std::string& s, char* out) { std::memcpy(out, s.data(), s.size()); return s.size(); }
extern "C" {
size_t w_hexdump(cp d, size_t n, char* out) { return put(tlx::hexdump(d, n), out); }
size_t w_hexdump_lc(cp d, size_t n, char* out) { return put(tlx::hexdump_lc(d, n), out); }
size_t w_parse_hexdump(cp d, size_t n, char* out) { return put(tlx::parse_hexdump(SV(d, n)), out); }
size_t w_base64_encode(cp d, size_t n, size_t line_break, char* out) { return put(tlx::base64_encode(d, n, line_break), out); }
size_t w_base64_decode(cp d, size_t n, bool strict, char* out) { return put(tlx::base64_decode(d, n, strict), out); }
char w_to_lower_c(char c) { return tlx::to_lower(c); }
char w_to_upper_c(char c) { return tlx::to_upper(c); }
size_t w_to_lower(cp d, size_t n, char* out) { return put(tlx::to_lower(SV(d, n)), out); }
size_t w_to_upper(cp d, size_t n, char* out) { return put(tlx::to_upper(SV(d, n)), out); }
// string_view based helpers: result view as (offset from d, length)
void w_trim(cp d, size_t n, cp drop, size_t dn, int which, size_t* off, size_t* len)
{
    SV r = which == 0 ? tlx::trim(SV(d, n), SV(drop, dn)) : which == 1 ? tlx::trim_left(SV(d, n), SV(drop, dn)) : tlx::trim_right(SV(d, n), SV(drop, dn));
    *off = r.size() ? r.data() - d : 0; *len = r.size();   // an empty result may be a default view (null data)
}
void w_trim_ws(cp d, size_t n, int which, size_t* off, size_t* len)
{
    SV r = which == 0 ? tlx::trim(SV(d, n)) : which == 1 ? tlx::trim_left(SV(d, n)) : tlx::trim_right(SV(d, n));
    *off = r.size() ? r.data() - d : 0; *len = r.size();   // an empty result may be a default view (null data)
}
bool w_starts_with(cp a, size_t an, cp b, size_t bn) { return tlx::starts_with(SV(a, an), SV(b, bn)); }
bool w_starts_with_icase(cp a, size_t an, cp b, size_t bn) { return tlx::starts_with_icase(SV(a, an), SV(b, bn)); }
bool w_ends_with(cp a, size_t an, cp b, size_t bn) { return tlx::ends_with(SV(a, an), SV(b, bn)); }
bool w_ends_with_icase(cp a, size_t an, cp b, size_t bn) { return tlx::ends_with_icase(SV(a, an), SV(b, bn)); }
bool w_contains(cp a, size_t an, cp b, size_t bn) { return tlx::contains(SV(a, an), SV(b, bn)); }
int w_compare_icase(cp a, size_t an, cp b, size_t bn) { return tlx::compare_icase(SV(a, an), SV(b, bn)); }
size_t w_levenshtein(cp a, size_t an, cp b, size_t bn) { return tlx::levenshtein(SV(a, an), SV(b, bn)); }
size_t w_levenshtein_icase(cp a, size_t an, cp b, size_t bn) { return tlx::levenshtein_icase(SV(a, an), SV(b, bn)); }
size_t w_erase_all(cp a, size_t an, cp drop, size_t dn, char* out) { return put(tlx::erase_all(SV(a, an), SV(drop, dn)), out); }
size_t w_replace_all(cp a, size_t an, cp needle, size_t nn, cp inst, size_t in, char* out) { return put(tlx::replace_all(SV(a, an), SV(needle, nn), SV(inst, in)), out); }
size_t w_replace_first(cp a, size_t an, cp needle, size_t nn, cp inst, size_t in, char* out) { return put(tlx::replace_first(SV(a, an), SV(needle, nn), SV(inst, in)), out); }
size_t w_pad(cp a, size_t an, size_t len, char pad, char* out) { return put(tlx::pad(SV(a, an), len, pad), out); }
}
