"""C09 -- loser trees report a minimum-holding source; stable ones break ties by index."""
from vlib import Job

NAMES = {0: 'LoserTreeCopy<false', 1: 'LoserTreeCopy<true', 2: 'LoserTreePointer<false', 3: 'LoserTreePointer<true',
         4: 'LoserTreeCopyUnguarded<false', 5: 'LoserTreeCopyUnguarded<true', 6: 'LoserTreePointerUnguarded<false', 7: 'LoserTreePointerUnguarded<true'}
BASE = {0: 'LoserTreeCopyBase', 1: 'LoserTreeCopyBase', 2: 'LoserTreePointerBase', 3: 'LoserTreePointerBase',
        4: 'LoserTreeCopyUnguardedBase', 5: 'LoserTreeCopyUnguardedBase', 6: 'LoserTreePointerUnguardedBase', 7: 'LoserTreePointerUnguardedBase'}
LABEL = 'bounded configuration: k <= 8 players; all replace histories by induction over delete_min_insert'


def jobs(tier):
    js = []
    for v in range(8):
        cls = r'tlx::' + NAMES[v].replace('<', '<').replace('(', r'\(') + r', unsigned int, std::less<unsigned int> ?>::'
        base = r'tlx::' + BASE[v] + r'<unsigned int, std::less<unsigned int> ?>::'
        def J(name, op, enforce, fns, what='', **kw):
            for ik in range(1, 9):
                js.append(Job(name='%s_v%d_k%d' % (name, v, ik), shim='losertree', contract='c09_losertree.c', harness='h_%s_v%d' % (name, v), enforce=[enforce],
                              shim_defines=['VARIANT=%d' % v], defines=['OP_' + op, 'VARIANT=%d' % v, 'FIX_IK=%d' % ik], functions=fns, unwind=18, timeout=900,
                              label=LABEL, object_bits=9, what=what + ' [%d players]' % ik, **kw))
        J('min_source', 'min_source', 'c_min_source', [base + r'min_source\(\)'],
          what='%s>: in every well-formed tournament state the reported source is a minimum-holding live player%s' % (NAMES[v], ' (smallest index among minima)' if v & 1 else ''))
        J('delete_min_insert', 'delete_min_insert', 'c_dmi', [cls + r'delete_min_insert\('],
          what='%s>::delete_min_insert preserves the tournament invariant from every well-formed state' % NAMES[v])
        J('build', 'build', 'c_build', [base + r'insert_start\(', base + r'init_winner\(', base + r'init\(\)'], cbmc_flags=['--unwind', '6'],
          what='%s>: constructor + insert_start x k + init establish the invariant for every k in 1..8 and every key assignment' % NAMES[v])
    return js


META = {
    'level': 'other',
    'assumptions': ['key type uint32_t with std::less', 'induction over the replace history is the stated composition step',
                    'unguarded variants under their documented precondition: no player runs out, sentinel strictly greater than every key'],
    'not_decided': ['k > 8 players (the invariant would need quantifiers)'],
    'explanation': 'tournament invariant replayed bottom-up from the stored losers; init establishes it, delete_min_insert preserves it, and it implies the winner property',
}
