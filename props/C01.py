"""C01 / C02 -- B+ tree containers: observational equality with the std ordered containers (C01) and balance/order
invariants + exact allocation (C02).  Both properties are decided by the same jobs (props/C02.py re-exports them)."""
from vlib import Job

LABEL = 'bounded: trees of depth <= 2 (<= %d keys) before and after the operation; leaf/inner slots %d/%d'


def cfg_jobs(multi, binsearch, greater, tier, ls=4, is_=4):
    js = []
    cname = 'multiset' if multi else 'set'
    tag = '%s_%s_%s' % (cname, 'bin' if binsearch else 'lin', 'gt' if greater else 'lt')
    sd = ['LS=%d' % ls, 'IS=%d' % is_, 'BIN=%d' % binsearch, 'MULTI=%d' % multi, 'MAP=0', 'GREATER=%d' % greater]
    BTF = r'tlx::BTree<unsigned char, unsigned char, .*>::'
    def J(name, op, enforce, fns, extra=(), timeout=1800, cbmc_flags=(), **kw):
        # the full set of CBMC 6 standard checks (signed overflow, pointer primitives, ...) makes these jobs run for > 20 min;
        # pointer and bounds checks (what C02's "no access to released storage" needs) are kept
        cbmc_flags = ['--no-standard-checks', '--pointer-check', '--bounds-check'] + list(cbmc_flags)
        js.append(Job(name='%s_%s' % (name, tag), shim='btree', contract='c01_btree.c', harness='h_' + name, enforce=[enforce] if isinstance(enforce, str) else enforce,
                      shim_defines=sd, defines=['OP_' + op] + sd + list(extra), functions=[BTF + f for f in fns], unwind=max(ls, is_) + 3, timeout=timeout, tier=tier,
                      resolve_types={'LEAF_T': r'___LeafNode$', 'INNER_T': r'___InnerNode$', 'NODE_T': r'___node$', 'BT_T': r'^S_class_tlx__btree_(multi)?set$'},
                      label=LABEL % ((is_ + 1) * ls, ls, is_), object_bits=10, mode='assert', backend='cadical', cbmc_flags=cbmc_flags, **kw))
    J('ctor', 'ctor', 'c_ctor', [r'BTree\('], what='default construction: empty well-formed tree')
    J('insert', 'insert', 'c_insert', [r'insert_start\(', r'insert_descend\(', r'split_leaf_node\(', r'find_lower<'],
      what='insert(k) from any well-formed tree of depth <= 2 with a non-full root: invariants, view + {k}, returned position, node ledger')
    J('erase_one', 'erase', 'c_erase', [r'erase_one\(', r'erase_one_descend\(', r'merge_leaves\(', r'shift_left_leaf\(', r'shift_right_leaf\('], ['KIND=0'],
      what='erase_one(k) from any well-formed tree of depth <= 2: invariants (all six leaf-level underflow cases), view - {k}, node ledger')
    J('erase_all', 'erase', 'c_erase', [r'erase\(unsigned char const&\)'], ['KIND=1'], cbmc_flags=['--unwind', str((is_ + 1) * ls + 2)],
      what='erase(k): all occurrences removed, returns their number')
    J('lookup', 'lookup', 'c_lookup', [r'exists\(', r'count\(', r'size\(\) const', r'empty\(\) const'], what='exists / count / size / empty equal the view')
    J('bounds', 'lookup', 'c_bound', [r'lower_bound\(unsigned char const&\) const', r'upper_bound\(unsigned char const&\) const', r'find\(unsigned char const&\) const', r'find_upper<'], ['BOUND'],
      what='lower_bound / upper_bound / find / begin / end return the position with the right rank in leaf-chain order')
    J('iterate', 'iterate', 'c_step', [r'iterator::operator\+\+\(\)', r'iterator::operator--\(\)'], what='iterator ++ / -- move one position along the leaf chain in both directions')
    J('clear', 'clear', 'c_clear', [r'clear\(\)', r'clear_recursive\(', r'free_node\('], cbmc_flags=['--unwind', '8'], what='clear() / destructor: every node returned exactly once, tree empty and reusable')
    return js


def jobs(tier):
    js = []
    js += cfg_jobs(0, 0, 0, 'quick')
    js += cfg_jobs(1, 1, 0, 'quick')
    js += cfg_jobs(0, 1, 1, 'thorough')
    js += cfg_jobs(1, 0, 1, 'thorough')
    return js


META = {
    'level': 'other',
    'assumptions': ['key type unsigned char (8-bit keys keep the order reasoning tractable for the SAT back end), comparators std::less / std::greater, set and multiset (value = key)',
                    'induction over the operation history is the stated composition step, restricted to trees within the depth bound'],
    'not_decided': ['trees deeper than 2 levels (inner-level merge/shift/split), insert into a tree whose root inner node is full (growth to depth 3)',
                    'btree_map / btree_multimap, erase(iterator), copy / assignment / swap / bulk_load / comparison operators, node capacities other than 4/4'],
    'explanation': 'every listed public operation enforced from an arbitrary well-formed tree of depth <= 2: verify()-conditions as representation invariant, view by ghost key/rank, node allocation ledger',
}
