"""C01 / C02 -- B+ tree containers: observational equality with the std ordered containers (C01) and balance/order
invariants + exact allocation (C02).  Both properties are decided by the same jobs (props/C02.py re-exports them)."""
from vlib import Job

LABEL = 'bounded: trees of depth <= 2 (<= %d keys) before and after the operation; leaf/inner slots %d/%d'


def cfg_jobs(multi, binsearch, greater, tier, ls=4, is_=4, reduced=False):
    js = []
    cname = 'multiset' if multi else 'set'
    tag = '%s_%s_%s' % (cname, 'bin' if binsearch else 'lin', 'gt' if greater else 'lt')
    sd = ['LS=%d' % ls, 'IS=%d' % is_, 'BIN=%d' % binsearch, 'MULTI=%d' % multi, 'MAP=0', 'GREATER=%d' % greater]
    BTF = r'tlx::BTree<unsigned char, unsigned char, .*>::'
    def J(name, op, enforce, fns, extra=(), timeout=1800, cbmc_flags=(), tier=tier, mem_gb=5, **kw):
        # the full set of CBMC 6 standard checks (signed overflow, pointer primitives, ...) makes these jobs run for > 20 min;
        # pointer and bounds checks (what C02's "no access to released storage" needs) are kept
        cbmc_flags = ['--no-standard-checks', '--pointer-check', '--bounds-check'] + list(cbmc_flags)
        js.append(Job(name='%s_%s' % (name, tag), shim='btree', contract='c01_btree.c', harness='h_' + name, enforce=[enforce] if isinstance(enforce, str) else enforce,
                      shim_defines=sd, defines=['OP_' + op] + sd + list(extra), functions=[BTF + f for f in fns], unwind=max(ls, is_) + 3, timeout=timeout, tier=tier,
                      resolve_types={'LEAF_T': r'___LeafNode$', 'INNER_T': r'___InnerNode$', 'NODE_T': r'___node$', 'BT_T': r'^S_class_tlx__btree_(multi)?set$'},
                      label=LABEL % ((is_ + 1) * ls, ls, is_), object_bits=10, mode='assert', backend='cadical', cbmc_flags=cbmc_flags, mem_gb=mem_gb, **kw))
    # layer A: node primitives on arbitrary node contents (complete for the configured capacity; frame checked by dfcc)
    def N(name, op, enforce, fns, extra=(), unwind=None, **kw):
        js.append(Job(name='node_%s_%s' % (name, tag), shim='btree', contract='c02_btree_nodes.c', harness='h_node_' + name, enforce=[enforce],
                      shim_defines=sd, defines=['OP_' + op] + sd + list(extra), functions=[BTF + f for f in fns], unwind=unwind or (max(ls, is_) + 4), timeout=900, tier=tier,
                      resolve_types={'LEAF_T': r'___LeafNode$', 'INNER_T': r'___InnerNode$', 'NODE_T': r'___node$', 'BT_T': r'^S_class_tlx__btree_(multi)?set$'},
                      label='complete for leaf/inner capacity %d/%d (all fill degrees, all keys)' % (ls, is_), **kw))
    for w, nm, fn in [(0, 'find_lower_leaf', r'find_lower<.*LeafNode>'), (1, 'find_lower_inner', r'find_lower<.*InnerNode>'), (2, 'find_upper_leaf', r'find_upper<.*LeafNode>'), (3, 'find_upper_inner', r'find_upper<.*InnerNode>')]:
        N(nm, 'find', 'c_find', [fn], ['WHICH=%d' % w], what='%s (%s search): first slot not before the key, on any sorted node' % (nm, 'binary' if binsearch else 'linear'))
    N('shift_left_leaf', 'shift_leaf', 'c_shift_leaf', [r'shift_left_leaf\('], ['DIR=0'], what='shift_left_leaf: concatenation preserved, fill degrees, separator / returned last key, chain')
    N('shift_right_leaf', 'shift_leaf', 'c_shift_leaf', [r'shift_right_leaf\('], ['DIR=1'], what='shift_right_leaf: concatenation preserved, fill degrees, separator, chain')
    N('shift_left_inner', 'shift_inner', 'c_shift_inner', [r'shift_left_inner\('], ['DIR=0'], what='shift_left_inner: keys with the separator threaded through and children preserved')
    N('shift_right_inner', 'shift_inner', 'c_shift_inner', [r'shift_right_inner\('], ['DIR=1'], what='shift_right_inner: keys with the separator threaded through and children preserved')
    N('merge_leaves', 'merge_leaves', 'c_merge_leaves', [r'merge_leaves\('], what='merge_leaves: left gets everything, right emptied, leaf chain and tail relinked')
    N('merge_inner', 'merge_inner', 'c_merge_inner', [r'merge_inner\('], what='merge_inner: left.keys ++ separator ++ right.keys, children concatenated')
    N('split_leaf', 'split_leaf', 'c_split_leaf', [r'split_leaf_node\(', r'allocate_leaf\('], unwind=70, mode='assert', what='split_leaf_node: halves concatenate to the old content, both half full, chain relinked, one node allocated')
    N('split_inner', 'split_inner', 'c_split_inner', [r'split_inner_node\(', r'allocate_inner\('], unwind=70, mode='assert', what='split_inner_node: halves around the returned separator, children preserved, no underflow after the pending insert')
    J('ctor', 'ctor', 'c_ctor', [r'BTree\('], mem_gb=1, what='default construction: empty well-formed tree')
    # mutating operations: one job per tree shape AND tuple of leaf fill degrees (all assigned): only then is the pointer
    # structure concrete enough for the solver; keys stay symbolic.  The quick tier takes the tuples that reach each
    # leaf-level rebalancing case once; the thorough tier adds every tuple for a root with one separator and six with two.
    INS = [r'insert_start\(', r'insert_descend\(', r'split_leaf_node\(']
    ERA = [r'erase_one\(', r'erase_one_descend\(', r'merge_leaves\(', r'shift_left_leaf\(', r'shift_right_leaf\(']
    ERI = [r'erase\(tlx::BTree<.*>::iterator\)', r'erase_iter_descend\(']
    def shape(fills):
        return (['FIX_SHAPE=1'] if len(fills) == 1 else ['FIX_SHAPE=2', 'FIX_RUSE=%d' % (len(fills) - 1)]) + ['FIX_FILLS=%s' % fills]
    J('insert_empty', 'insert', 'c_insert', INS, ['FIX_SHAPE=0'], mem_gb=1, unwindset=['ir_memset.0:70'], what='insert into the empty tree')
    J('erase_one_empty', 'erase', 'c_erase', ERA, ['KIND=0', 'FIX_SHAPE=0'], mem_gb=1, what='erase_one on the empty tree')
    J('clear_empty', 'clear', 'c_clear', [r'clear\(\)'], ['FIX_SHAPE=0'], mem_gb=1, unwindset=['ir_memset.0:70'], what='clear() / destructor of the empty tree')
    import itertools
    q_ins = ['1', '4', '44', '24', '42', '234'] if not reduced else ['4']
    q_era = ['1', '2', '22', '23', '32'] if not reduced else ['2']
    q_eri = ['1', '22', '32'] if not reduced else []
    # thorough tier of the full configuration: every tuple for a root with one separator, every single-leaf fill, and six
    # tuples for a root with two separators (each such job: 3-8 min, 5 GB); the other configurations run their quick lists only
    all12 = ([''.join(t) for t in itertools.product('234', repeat=2)] + ['1', '2', '3', '4'] + ['222', '234', '432', '423', '324', '244']) if not reduced else []
    for fl in sorted(set(q_ins + all12)):
        if len(fl) - 1 >= is_: continue
        J('insert_f' + fl, 'insert', 'c_insert', INS, shape(fl), unwindset=['ir_memset.0:70'], tier=tier if fl in q_ins else 'thorough',
          what='insert(k) into any tree with leaf fills %s: invariants, view + {k}, returned position, node ledger' % fl)
    for fl in sorted(set(q_era + all12)):
        J('erase_one_f' + fl, 'erase', 'c_erase', ERA, ['KIND=0'] + shape(fl), tier=tier if fl in q_era else 'thorough',
          what='erase_one(k) from any tree with leaf fills %s: invariants (underflow handling), view - {k}, node ledger' % fl)
    for fl in sorted(set(q_eri + all12)):
        # erase_iter_descend re-descends once per candidate child inside its duplicate-scan loop, and every iteration holds a
        # full copy of the leaf-level rebalancing code (4 GB of formula each).  The loop gets its own bound: 1 for sets
        # (a valid iterator is always found in the first candidate), the number of children for multisets; the recursion
        # gets bound 1 (depth <= 2).  Both bounds are proved by their unwinding assertions, not assumed.
        nchild = len(fl)
        if multi and nchild > 1: continue            # two loop iterations = two copies of the rebalancing code: > 14 GB of formula (measured); NOT DECIDED
        J('erase_iter_f' + fl, 'erase_iter', 'c_erase_iter', ERI, shape(fl), tier=tier if fl in q_eri else 'thorough',
          resolve={'ERID': r'erase_iter_descend\('}, unwindset=['{ERID}:1', '{ERID}.0:%d' % (nchild if multi else 1)], mem_gb=(5 * nchild if multi else 5),
          what='erase(iterator) at any position of any tree with leaf fills %s: exactly that element disappears, invariants, node ledger' % fl)
    # three children: the middle leaf underflows between two siblings with spare keys (left fuller / right fuller); the
    # designated position is fixed as well to keep these two in the quick tier (every position: erase_iter_f423 / _f324, thorough)
    if not multi:
        for fl in ('423', '324'):
            J('erase_iter_f%s_l1s0' % fl, 'erase_iter', 'c_erase_iter', ERI, shape(fl) + ['FIX_LI=1', 'FIX_SLOT=0'], tier=tier if not reduced else 'thorough',
              resolve={'ERID': r'erase_iter_descend\('}, unwindset=['{ERID}:1', '{ERID}.0:1'],
              what='erase(iterator) of the first key of the middle leaf, leaf fills %s (underflow between two siblings with spare keys)' % fl)
    for fl in ('3', '23', '234'):
        J('clear_f' + fl, 'clear', 'c_clear', [r'clear\(\)', r'clear_recursive\(', r'free_node\('], shape(fl), tier=(tier if not reduced else 'thorough'), mem_gb=2,
          resolve={'CLR': r'clear_recursive\('}, unwindset=['ir_memset.0:70', '{CLR}:1'], what='clear() / destructor with leaf fills %s: every node freed exactly once, empty well-formed tree left' % fl)
    # count() walks over all duplicates: up to every key of the tree
    J('lookup', 'lookup', 'c_lookup', [r'exists\(', r'count\(', r'size\(\) const', r'empty\(\) const'], resolve={'COUNT': r'^tlx::BTree<.*>::count\(unsigned char const&\) const'},
      unwindset=['{COUNT}.0:%d' % ((is_ + 1) * ls + 2), '{COUNT}.1:%d' % ((is_ + 1) * ls + 2)], tier=('thorough' if reduced else tier), what='exists / count / size / empty equal the view')
    J('bounds', 'lookup', 'c_bound', [r'lower_bound\(unsigned char const&\) const', r'upper_bound\(unsigned char const&\) const', r'find\(unsigned char const&\) const', r'find_upper<'], ['BOUND'],
      what='lower_bound / upper_bound / find / begin / end return the position with the right rank in leaf-chain order')
    J('iterate', 'iterate', 'c_step', [r'iterator::operator\+\+\(\)', r'iterator::operator--\(\)'], what='iterator ++ / -- move one position along the leaf chain in both directions')
    return js


def jobs(tier):
    js = []
    js += cfg_jobs(0, 0, 0, 'quick')
    js += cfg_jobs(1, 1, 0, 'quick', reduced=True)
    js += cfg_jobs(0, 1, 1, 'thorough', reduced=True)
    js += cfg_jobs(1, 0, 1, 'thorough', reduced=True)
    return js


META = {
    'level': 'other',
    'assumptions': ['key type unsigned char (8-bit keys keep the order reasoning tractable for the SAT back end), comparators std::less / std::greater, set and multiset (value = key)',
                    'induction over the operation history is the stated composition step, restricted to trees within the depth bound'],
    'not_decided': ['trees deeper than 2 levels (inner-level merge/shift/split), insert into a tree whose root inner node is full (growth to depth 3)',
                    'btree_map / btree_multimap, copy / assignment / swap / bulk_load / comparison operators, erase(key) removing all duplicates, node capacities other than 4/4',
                    'erase(iterator) on a multiset whose root is an inner node (the duplicate scan over several leaves: two copies of the rebalancing code exceed 14 GB of formula); seeded change C01-m1 lives there and is NOT detected',
                    'whole-tree mutating operations run once per tuple of leaf fill degrees: quick tier = the tuples listed in props/C01.py, thorough tier = every tuple for a root with one separator plus six tuples with two separators; other tuples are not run'],
    'explanation': 'every listed public operation enforced from an arbitrary well-formed tree of depth <= 2: verify()-conditions as representation invariant, view by ghost key/rank, node allocation ledger',
}
