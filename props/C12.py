"""C12 -- CountingPtr destroys its object exactly once, when the last owner lets go (sequential half)."""
from vlib import Job

CP = r'tlx::CountingPtr<Obj, tlx::CountingPtrDefaultDeleter>::'


def J(name, op, enforce, fns, extra=(), what=''):
    return Job(name=name, shim='countingptr', contract='c12_countingptr.c', harness='h_' + name, enforce=enforce if isinstance(enforce, list) else [enforce],
               defines=['OP_' + op] + list(extra), functions=fns, timeout=300, what=what)


def jobs(tier):
    js = []
    js.append(J('refcounter', 'refcounter', ['c_inc', 'c_dec'], [r'tlx::ReferenceCounter::inc_reference', r'tlx::ReferenceCounter::dec_reference', r'tlx::ReferenceCounter::unique', r'tlx::ReferenceCounter::reference_count'],
                what='ReferenceCounter: inc adds one, dec subtracts one and returns true exactly for the last release'))
    kinds = [(0, 'default', r'CountingPtr\(\)'), (1, 'nullptr', r'CountingPtr\(decltype\(nullptr\)\)'), (2, 'rawptr', r'CountingPtr\(Obj\*\)'),
             (3, 'copy', r'CountingPtr\(tlx::CountingPtr<Obj, tlx::CountingPtrDefaultDeleter> const&\)'),
             (4, 'copy_conv', r'CountingPtr<Derived, void>\(tlx::CountingPtr<Derived, tlx::CountingPtrDefaultDeleter> const&\)'),
             (5, 'move', r'CountingPtr\(tlx::CountingPtr<Obj, tlx::CountingPtrDefaultDeleter>&&\)'),
             (6, 'move_conv', r'CountingPtr<Derived, void>\(tlx::CountingPtr<Derived, tlx::CountingPtrDefaultDeleter>&&\)')]
    for k, nm, fn in kinds:
        js.append(J('ctor_' + nm, 'ctor', 'c_ctor', [CP + fn], extra=['KIND=%d' % k], what='constructor (%s): invariant count == #handles re-established, nothing destroyed' % nm))
    akinds = [(0, 'copy_assign', r'operator=\(tlx::CountingPtr<Obj, tlx::CountingPtrDefaultDeleter> const&\)'),
              (1, 'copy_assign_conv', r'operator=<Derived, void>\(tlx::CountingPtr<Derived, tlx::CountingPtrDefaultDeleter> const&\)'),
              (2, 'move_assign', r'operator=\(tlx::CountingPtr<Obj, tlx::CountingPtrDefaultDeleter>&&\)'),
              (3, 'move_assign_conv', r'operator=<Derived, void>\(tlx::CountingPtr<Derived, tlx::CountingPtrDefaultDeleter>&&\)'),
              (4, 'swap', r'swap\(tlx::CountingPtr<Obj'), (5, 'swap_free', r'swap\(tlx::CountingPtr<Obj')]
    for k, nm, fn in akinds:
        js.append(J(nm, 'assign', 'c_assign', [CP + fn], extra=['KIND=%d' % k], what='%s on two handles with any aliasing: invariant, exactly-once destruction at count zero' % nm))
    js.append(J('self_assign', 'self_assign', 'c_self', [CP + r'operator='], what='self copy-assignment, self move-assignment, self swap'))
    js.append(J('release', 'release', 'c_release', [CP + r'~CountingPtr\(\)', CP + r'reset\(\)', CP + r'dec_reference\(\)'], what='destructor / reset(): object destroyed iff this was the last handle'))
    js.append(J('unify', 'unify', 'c_unify', [CP + r'unify\(\)'], what='unify(): private copy when shared, no-op otherwise'))
    js.append(J('observe', 'observe', 'c_observe', [CP + r'get\(\)', CP + r'valid\(\)', CP + r'empty\(\)', CP + r'unique\(\)', CP + r'use_count\(\)', CP + r'operator==', CP + r'operator!='],
                what='get/valid/bool/empty/unique/use_count/==/!= report the state; empty frame'))
    js.append(J('make_counting', 'make', 'c_make', [r'tlx::make_counting<Obj'], what='make_counting: fresh object with count 1'))
    return js


META = {
    'level': 'proof',
    'assumptions': ['std::atomic operations executed sequentially (one thread)',
                    'induction over the operation history is the stated composition step; participating handles <= 3, objects <= 2, further handles per object symbolic (unbounded)'],
    'not_decided': ['the concurrent half of C12 (handles copied and released by several threads under any interleaving): no thread semantics in this technique'],
    'explanation': 'every CountingPtr operation enforced from an arbitrary state satisfying count == #handles, with symbolic numbers of non-participating handles',
}
