"""C02 -- B+ tree structural invariants (balance, fill degrees, key order, leaf chain, node ledger).  Decided by the same
jobs as C01 (props/C01.py): every job enforces the representation invariant bt_wf and the allocation ledger next to the
view clauses, so one run settles both properties; this module re-exports the job list so that `./check C02` writes its
own evidence from its own run."""
from props.C01 import jobs, META  # noqa: F401
