"""C17 -- SplayTree is a correct ordered (multi)set (the LRU cache half of C17 is not under contract)."""
from vlib import Job

LABEL = 'bounded: trees of at most %d nodes (any shape) before the operation'


def jobs(tier):
    js = []
    for dup, nn, tr in [(0, 3, 'quick'), (1, 3, 'quick'), (0, 4, 'thorough'), (1, 4, 'thorough')]:
        tag = ('multiset' if dup else 'set') + '_n%d' % nn
        STF = r'tlx::SplayTree<unsigned char, std::less<unsigned char>, %s, std::allocator<unsigned char> ?>::' % ('true' if dup else 'false')
        def J(name, op, enforce, fns, extra=(), **kw):
            js.append(Job(name='%s_%s' % (name, tag), shim='splay', contract='c17_splay.c', harness='h_' + name, enforce=[enforce],
                          shim_defines=['DUP=%d' % dup], defines=['OP_' + op, 'DUP=%d' % dup, 'NN=%d' % nn] + list(extra), functions=fns,
                          unwind=nn + 3, cbmc_flags=['--unwind', str(nn + 4)], timeout=2400, mode='assert', object_bits=9, backend='cadical', tier=tr,
                          resolve_types={'NODE_T': r'^S_struct_tlx__SplayTree_.*___Node$'}, label=LABEL % nn, **kw))
        J('ctor', 'ctor', 'c_ctor', [STF + r'SplayTree\('], what='construction: empty tree')
        J('insert', 'insert', 'c_insert', [STF + r'insert\(', r'tlx::splay<', r'tlx::splay_insert<'], what='insert(k): valid search tree, multiplicity of k +1 (set: unless present), size, one node allocated')
        J('erase', 'erase', 'c_erase', [STF + r'erase\(unsigned char const&\)', r'tlx::splay_erase<'], what='erase(k): one occurrence removed, nothing else lost, node freed once')
        J('exists', 'query', 'c_query', [STF + r'exists\('], ['WHICH=0'], what='exists(k) on any tree including the empty one; contents unchanged')
        J('find', 'query', 'c_query', [STF + r'find\('], ['WHICH=1'], what='find(k) returns the root holding k when present; contents unchanged')
        J('clear', 'clear', 'c_clear', [STF + r'clear\(\)', r'tlx::splay_traverse_postorder<'], what='clear(): every node freed exactly once, size 0')
        J('clear_reuse', 'clear', 'c_clear', [STF + r'clear\(\)'], ['REUSE'], what='clear() then insert(): the tree is usable after clear()')
        J('dtor', 'dtor', 'c_dtor', [STF + r'~SplayTree\(\)'], what='destructor frees every node exactly once')
        J('traverse', 'traverse', 'c_traverse', [STF + r'traverse_preorder<', r'tlx::splay_traverse_preorder<'], what='traversal visits the stored keys in order, each as often as stored')
    return js


META = {
    'level': 'other',
    'assumptions': ['key type uint8_t with std::less; contract enforced by rewriting (assert mode): assigns clause not checked'],
    'not_decided': ['trees of more than 3 (quick) / 4 (thorough) nodes', 'LruCacheSet / LruCacheMap (std::list + std::unordered_map internals exceed what the solver handles here): NOT under contract',
                    'trees of more than 4 nodes'],
    'explanation': 'every SplayTree operation enforced from an arbitrary valid search tree of <= 4 nodes incl. the empty tree; multiplicity by ghost key; node ledger',
}
