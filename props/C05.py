"""C05 -- multiway_merge emits the smallest elements in order, stably, advancing inputs."""
from vlib import Job

ENTRY = {0: ('base', r'tlx::multiway_merge_base<'), 1: ('base_sentinels', r'tlx::multiway_merge_base<'), 2: ('bubble', r'tlx::multiway_merge_detail::multiway_merge_bubble<'),
         3: ('loser_tree', r'tlx::multiway_merge_detail::multiway_merge_loser_tree<'), 4: ('loser_tree_combined', r'tlx::multiway_merge_detail::multiway_merge_loser_tree_combined<'),
         5: ('loser_tree_sentinel', r'tlx::multiway_merge_detail::multiway_merge_loser_tree_sentinel<'), 6: ('public', r'tlx::(stable_)?multiway_merge<'),
         7: ('public_sentinels', r'tlx::(stable_)?multiway_merge_sentinels<'), 8: ('merge_advance', r'tlx::merge_advance')}


def jobs(tier):
    js = []
    def J(entry, k, stable, big=0, lmax=2, tier_='quick', extra=(), lens=None, mwma=None, size=None, obits=10):
        nm, fn = ENTRY[entry]
        sent = entry in (1, 5, 7)
        name = '%s_k%d_%s%s%s%s' % (nm, k, 'stable' if stable else 'unstable', '_big' if big else '', ('_L' + lens) if lens else '', ('_a%d' % mwma) if mwma is not None else '')
        if mwma is not None: extra = list(extra) + ['FIX_MWMA=%d' % mwma]
        if size is not None: extra = list(extra) + ['FIX_SIZE=%d' % size]; name += '_s%d' % size
        if lens: extra = list(extra) + ['FIX_LENS=%s' % lens.lstrip('0') if lens.lstrip('0') else 'FIX_LENS=0']
        js.append(Job(name=name, shim='mwmerge', contract='c05_mwmerge.c', harness='h_' + name, enforce=['c_mm'],
                      shim_defines=['ENTRY=%d' % entry, 'STABLE=%d' % stable, 'BIG=%d' % big],
                      defines=['K=%d' % k, 'STABLE=%d' % stable, 'LMAX=%d' % lmax] + (['SENTINELS'] if sent else []) + list(extra),
                      functions=[fn], unwind=max(k * lmax + 4, 4 * k + 2), timeout=1500, tier=tier_, mode='assert', object_bits=obits,
                      label='bounded: %d sequences of length <= %d (total <= %d), all keys, all sizes' % (k, lmax, k * lmax),
                      what='%s, k=%d, %s, %s elements: returns target+size, inputs advanced by size in total, output ordered%s, exactly the taken elements, nothing smaller left behind' %
                           (nm, k, 'stable' if stable else 'unstable', '40-byte' if big else '2-byte', ' with ties in (sequence, position) order' if stable else '')))
    for stable in (0, 1):
        J(8, 2, stable, lmax=3)                       # merge_advance
        for k in (1, 2):
            J(0, k, stable, lmax=3)                   # multiway_merge_base with a symbolic algorithm value: k = 1 copies, k = 2 is merge_advance
        J(5, 3, stable)                               # multiway_merge_loser_tree_sentinel called directly, k = 3
    J(3, 3, 0, obits=12, tier_='thorough')            # multiway_merge_loser_tree (copying loser tree) called directly, k = 3: 9 minutes
    # Tried and NOT decidable here (each > 15 min or > 10 GB, see DESIGN.md): multiway_merge_base for k = 3, 4 (the
    # goto state machines multiway_merge_3/4_variant explode in symbolic execution: every label reached by forward AND
    # backward jumps merges symbolic `size` values, so no loop bound folds), k = 5 with any algorithm, bubble, the
    # combined / pointer-based loser trees, the public entry points for k >= 3.
    return js


META = {
    'level': 'other',
    'assumptions': ['element = (key, tag) compared by key only; 2-byte elements select the copying loser trees, 40-byte elements the pointer-based ones',
                    'contract enforced by rewriting (assert mode): the assigns clause is not checked'],
    'not_decided': ['k >= 3 through multiway_merge_base / the public entry points (multiway_merge_3_variant, _4_variant, _3_combined, _4_combined, bubble, loser_tree, loser_tree_combined): symbolic execution of the goto state machines and of k >= 5 merges does not finish; seeded changes C05-m1 and C05-m2 live there and are NOT detected',
                    'k = 0 (nothing to merge)', 'sequences longer than 3 (k <= 2) / 2 (k = 3)', 'pointer-based loser trees (elements larger than 16 bytes)'],
    'explanation': 'the property statement as contract of each entry point and algorithm variant; permutation / smallest-ones / stability stated for ghost indices over tagged elements',
}
