"""C05 -- multiway_merge emits the smallest elements in order, stably, advancing inputs."""
from vlib import Job

ENTRY = {0: ('base', r'tlx::multiway_merge_base<'), 1: ('base_sentinels', r'tlx::multiway_merge_base<'), 2: ('bubble', r'tlx::multiway_merge_detail::multiway_merge_bubble<'),
         3: ('loser_tree', r'tlx::multiway_merge_detail::multiway_merge_loser_tree<'), 4: ('loser_tree_combined', r'tlx::multiway_merge_detail::multiway_merge_loser_tree_combined<'),
         5: ('loser_tree_sentinel', r'tlx::multiway_merge_detail::multiway_merge_loser_tree_sentinel<'), 6: ('public', r'tlx::(stable_)?multiway_merge<'),
         7: ('public_sentinels', r'tlx::(stable_)?multiway_merge_sentinels<'), 8: ('merge_advance', r'tlx::merge_advance')}


def jobs(tier):
    js = []
    def J(entry, k, stable, big=0, lmax=2, tier_='quick', extra=(), lens=None, mwma=None, size=None):
        nm, fn = ENTRY[entry]
        sent = entry in (1, 5, 7)
        name = '%s_k%d_%s%s%s%s' % (nm, k, 'stable' if stable else 'unstable', '_big' if big else '', ('_L' + lens) if lens else '', ('_a%d' % mwma) if mwma is not None else '')
        if mwma is not None: extra = list(extra) + ['FIX_MWMA=%d' % mwma]
        if size is not None: extra = list(extra) + ['FIX_SIZE=%d' % size]; name += '_s%d' % size
        if lens: extra = list(extra) + ['FIX_LENS=%s' % lens.lstrip('0') if lens.lstrip('0') else 'FIX_LENS=0']
        js.append(Job(name=name, shim='mwmerge', contract='c05_mwmerge.c', harness='h_' + name, enforce=['c_mm'],
                      shim_defines=['ENTRY=%d' % entry, 'STABLE=%d' % stable, 'BIG=%d' % big],
                      defines=['K=%d' % k, 'STABLE=%d' % stable, 'LMAX=%d' % lmax] + (['SENTINELS'] if sent else []) + list(extra),
                      functions=[fn], unwind=max(k * lmax + 4, 4 * k + 2), timeout=1500, tier=tier_, mode='assert', object_bits=10,
                      label='bounded: %d sequences of length <= %d (total <= %d), all keys, all sizes' % (k, lmax, k * lmax),
                      what='%s, k=%d, %s, %s elements: returns target+size, inputs advanced by size in total, output ordered%s, exactly the taken elements, nothing smaller left behind' %
                           (nm, k, 'stable' if stable else 'unstable', '40-byte' if big else '2-byte', ' with ties in (sequence, position) order' if stable else '')))
    for a in (0, 1): J(0, 3, 1, mwma=a, size=2); J(0, 3, 1, mwma=a, size=4); J(0, 3, 1, mwma=a, size=6); J(0, 4, 1, mwma=a, size=3)  # probes
    for stable in (0, 1):
        J(8, 2, stable, lmax=3)                       # merge_advance
        for k in (0, 1, 2, 3, 4, 5):
            J(0, k, stable, lmax=2 if k >= 3 else 3)  # multiway_merge_base, every algorithm value, k selects the code path
        J(1, 3, stable); J(1, 4, stable); J(1, 5, stable)
        J(2, 3, stable); J(3, 3, stable); J(4, 3, stable); J(5, 3, stable)
        J(3, 3, stable, big=1); J(4, 3, stable, big=1, tier_='thorough'); J(5, 3, stable, big=1, tier_='thorough')
        J(6, 3, stable); J(6, 5, stable, tier_='thorough'); J(7, 3, stable); J(7, 5, stable, tier_='thorough')
    return js


META = {
    'level': 'other',
    'assumptions': ['element = (key, tag) compared by key only; 2-byte elements select the copying loser trees, 40-byte elements the pointer-based ones',
                    'contract enforced by rewriting (assert mode): the assigns clause is not checked'],
    'not_decided': ['more than 5 sequences / sequences longer than 3', 'multiway_merge_loser_tree_unguarded called directly (it is reached through the combined variants)'],
    'explanation': 'the property statement as contract of each entry point and algorithm variant; permutation / smallest-ones / stability stated for ghost indices over tagged elements',
}
