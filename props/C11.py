"""C11 -- Semaphore / ThreadBarrierMutex: the per-call SAFETY fragment only (see DESIGN C11 and the level note)."""
from vlib import Job


def jobs(tier):
    js = []
    def J(name, op, enforce, fns, extra=(), **kw):
        js.append(Job(name=name, shim='sync', contract='c11_sync.c', harness='h_' + name, enforce=[enforce], defines=['OP_' + op] + list(extra),
                      functions=fns, unwind=4, timeout=300, label='bounded: at most 2 wake-ups per blocking call; all size_t values', no_replay=True, **kw))
    J('signal', 'signal', 'c_signal', [r'tlx::Semaphore::signal\(\)', r'tlx::Semaphore::signal\(unsigned long\)'], what='signal() / signal(n): adds exactly 1 / n under the lock, notifies (signal(n): all), releases the lock')
    J('wait', 'wait', 'c_wait', [r'tlx::Semaphore::wait\('], ['OVERFLOW=0'], what='wait(delta, slack): returns only after value >= delta + slack was observed under the lock; takes exactly delta; lock released')
    J('wait_kf_overflow', 'wait', 'c_wait', [r'tlx::Semaphore::wait\('], ['OVERFLOW=1'], what='KNOWN FINDING: wait(delta, slack) with delta + slack wrapping around size_t')
    J('try_acquire', 'try_acquire', 'c_try', [r'tlx::Semaphore::try_acquire\('], what='try_acquire: true exactly when value >= delta + slack, then takes exactly delta; never blocks')
    J('barrier', 'barrier', 'c_barrier', [r'tlx::ThreadBarrierMutex::wait<'], what='ThreadBarrierMutex::wait: last arriver flips the generation, zeroes the other counter, runs the action once before notify_all; others return only after their generation is complete')
    return js


META = {
    'level': 'other',
    'assumptions': ['monitor model: mutex = ghost flag, condition_variable::wait = havoc of the protected state with the lock held, notify = ghost event',
                    'counterexamples are not replayed natively (blocking primitives)'],
    'not_decided': ['"no waiter stays blocked although the value covers its request" (signal() wakes one waiter with mixed deltas): schedule/liveness property',
                    'token conservation across threads and barrier generations across threads as whole-execution properties (only their per-call ingredients are decided)',
                    'ThreadBarrierSpin'],
    'explanation': 'per-call monitor contracts of Semaphore::signal/wait/try_acquire and ThreadBarrierMutex::wait over all size_t values',
}
