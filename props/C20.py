"""C20 -- integer math helpers equal their mathematical definition on the whole domain (+ Aggregate combination)."""
from vlib import Job
import os

SIX = [('i32', 32, 1), ('u32', 32, 0), ('il', 64, 1), ('ul', 64, 0), ('ill', 64, 1), ('ull', 64, 0)]
CXX = {'i32': 'int', 'u32': 'unsigned int', 'il': 'long', 'ul': 'unsigned long', 'ill': 'long long', 'ull': 'unsigned long long'}
TW = [('u8', 8), ('u16', 16), ('u32', 32), ('u64', 64)]


def J(name, spec, fn, w, sgn, functions, rw=None, unwind=None, extra=(), label='complete', timeout=300, tier='quick', what=None, backend='sat', **kw):
    d = ['SPEC_' + spec, 'FN=' + fn, 'W=%d' % w, 'SGN=%d' % sgn] + list(extra)
    if rw: d.append('RW=%d' % rw)
    return Job(name=name, shim='math', contract='c20_math.c', harness='h_' + name, enforce=['c_fn'], defines=d,
               unwind=unwind, functions=functions, label=label, timeout=timeout, tier=tier, backend=backend, **kw,
               what=what or ('%s against its defining property, all %d-bit arguments' % (fn, w)))


def jobs(tier):
    js = []
    # intrinsic-backed overloads, six each
    for spec, tl in [('clz', 'clz'), ('ctz', 'ctz'), ('ffs', 'ffs'), ('popcount', 'popcount'),
                     ('log2floor', 'integer_log2_floor'), ('log2ceil', 'integer_log2_ceil'),
                     ('ispow2', 'is_power_of_two'), ('rup2', 'round_up_to_power_of_two'),
                     ('rdown2', 'round_down_to_power_of_two')]:
        for sfx, w, sg in SIX:
            js.append(J('%s_%s' % (spec, sfx), spec, 'w_%s_%s' % (spec, sfx), w, sg,
                        [r'tlx::%s(<[^>]*>)?\(%s\)' % (tl, CXX[sfx])], unwind=66))
    # portable fall-back templates, every width (loops bounded by the operand width: unwinding assertions make it complete)
    for spec, tl in [('clz', 'clz_template'), ('ctz', 'ctz_template'), ('ffs', 'ffs_template'),
                     ('log2floor', 'integer_log2_floor_template'), ('rup2', 'round_up_to_power_of_two_template')]:
        for sfx, w in TW:
            js.append(J('%s_t_%s' % (spec, sfx), spec, 'w_%s_t_%s' % (spec, sfx), w, 0, [r'tlx::%s<' % tl], unwind=66))
    js.append(J('log2floor_t_i32', 'log2floor', 'w_log2floor_t_i32', 32, 1, [r'tlx::integer_log2_floor_template<int>'], unwind=34))
    js.append(J('log2floor_t_i64', 'log2floor', 'w_log2floor_t_i64', 64, 1, [r'tlx::integer_log2_floor_template<long long>'], unwind=66))
    for sfx, w, sg in [('u8', 8, 0), ('u16', 16, 0), ('i8', 8, 1), ('i16', 16, 1)]:
        js.append(J('ispow2_t_' + sfx, 'ispow2', 'w_ispow2_t_' + sfx, w, sg, [r'tlx::is_power_of_two_template<'], unwind=66))
    for w in (8, 16, 32, 64):
        js.append(J('popcount_g%d' % w, 'popcount', 'w_popcount_g%d' % w, w, 0, [r'tlx::popcount_generic%d' % w], unwind=66))
    js.append(J('popcount_range', 'popcount_range', 'w_popcount_range', 8, 0, [r'tlx::popcount\(void const\*, unsigned long\)'],
                unwind=15, label='bounded: size <= 13 bytes', timeout=600,
                ignore=r'pointer relation: pointer outside object bounds', ignore_why='popcount(data,size) forms begin+7 / begin+3 past the end of a short buffer before comparing with end: technically undefined pointer arithmetic, not a statement of C20; dereferences stay checked', what='popcount(data,size) = number of one bits, every buffer of <= 13 bytes, over-reads are bounds obligations'))
    for w in (16, 32, 64):
        js.append(J('bswap%d' % w, 'bswap', 'w_bswap%d' % w, w, 0, [r'tlx::bswap%d\(' % w]))
        js.append(J('bswap%d_generic' % w, 'bswap', 'w_bswap%d_generic' % w, w, 0, [r'tlx::bswap%d_generic\(' % w]))
    for r in ('rol', 'ror'):
        for w in (32, 64):
            js.append(J('%s%d' % (r, w), r, 'w_%s%d' % (r, w), w, 0, [r'tlx::%s%d\(' % (r, w)],
                        what='%s%d: every bit lands at its rotated position, all x, all int shift counts (inline asm %s mapped to a C rotate: trusted)' % (r, w, r)))
            js.append(J('%s%d_generic' % (r, w), r, 'w_%s%d_generic' % (r, w), w, 0, [r'tlx::%s%d_generic\(' % (r, w)]))
    # div_ceil / round_up
    for sfx, w, sg in [('u8', 8, 0), ('u16', 16, 0), ('u32', 32, 0), ('u64', 64, 0), ('i8', 8, 1), ('i16', 16, 1), ('i32', 32, 1), ('i64', 64, 1)]:
        rw = 32 if w < 32 else w
        js.append(J('div_ceil_' + sfx, 'div_ceil', 'w_div_ceil_' + sfx, w, sg, [r'tlx::div_ceil<'], rw=rw, extra=['DOM=0'], backend='cadical',
                    tier='thorough' if sfx == 'i64' else 'quick', timeout=2400 if sfx == 'i64' else 300,   # i64: 14.5 min with CaDiCaL
                    what='div_ceil<%s>: (q-1)*k < n <= q*k on the domain n >= 0, k >= 1, n+k-1 representable' % sfx))
        if sfx == 'i64':
            pass   # round_up<int64_t>: no installed back end finishes within 50 min: NOT DECIDED (DESIGN C20)
        elif w <= 16:
            js.append(J('round_up_' + sfx, 'round_up', 'w_round_up_' + sfx, w, sg, [r'tlx::round_up<'], rw=rw, extra=['DOM=0'], backend='cadical',
                        tier='quick' if w == 8 else 'thorough', timeout=900,
                        what='round_up<%s>: smallest multiple of k >= n (all three clauses)' % sfx))
        else:
            js.append(J('round_up_' + sfx, 'round_up', 'w_round_up_' + sfx, w, sg, [r'tlx::round_up<'], rw=rw, extra=['DOM=0', 'RU_MULT=0'], backend='cadical',
                        label='partial: clause "k divides the result" not decided at %d bit (bounds clauses are)' % w, timeout=900,
                        what='round_up<%s>: n <= m < n + k whenever representable; divisibility of m by k not decided at this width' % sfx))
    # known findings, stated as input predicates (DOM=1: n+k-1 not representable; DOM=2: negative n): these jobs are
    # expected to fail; they print KNOWN-FINDING.  Every other input is covered by the DOM=0 jobs above.
    for sfx, w, sg in [('u32', 32, 0), ('u64', 64, 0), ('i32', 32, 1)]:
        js.append(J('div_ceil_%s_kf_overflow' % sfx, 'div_ceil', 'w_div_ceil_' + sfx, w, sg, [r'tlx::div_ceil<'], rw=w, extra=['DOM=1'], backend='cadical',
                    what='KNOWN FINDING: div_ceil<%s> where n + k - 1 is not representable' % sfx))
        js.append(J('round_up_%s_kf_overflow' % sfx, 'round_up', 'w_round_up_' + sfx, w, sg, [r'tlx::round_up<'], rw=w, extra=['DOM=1', 'RU_MULT=0'], backend='cadical',
                    what='KNOWN FINDING: round_up<%s> where n + k - 1 is not representable but the result is' % sfx))
    for sfx, w in [('i8', 8), ('i32', 32)]:
        js.append(J('div_ceil_%s_kf_negative' % sfx, 'div_ceil', 'w_div_ceil_' + sfx, w, 1, [r'tlx::div_ceil<'], rw=32, extra=['DOM=2'], backend='cadical',
                    what='KNOWN FINDING: div_ceil<%s> for negative n (truncating division)' % sfx))
        js.append(J('round_up_%s_kf_negative' % sfx, 'round_up', 'w_round_up_' + sfx, w, 1, [r'tlx::round_up<'], rw=32, extra=['DOM=2', 'RU_MULT=0'], backend='cadical',
                    what='KNOWN FINDING: round_up<%s> for negative n (truncating division)' % sfx))
    for sfx, w in TW + [('i8', 8), ('i16', 16), ('i32', 32), ('i64', 64)]:
        sg = 1 if sfx[0] == 'i' else 0
        js.append(J('abs_diff_' + sfx, 'abs_diff', 'w_abs_diff_' + sfx, w, sg, [r'tlx::abs_diff<']))
        js.append(J('sgn_' + sfx, 'sgn', 'w_sgn_' + sfx, w, sg, [r'tlx::sgn<']))
    # Aggregate<double>
    CM = r'tlx::Aggregate<double>::combine_means\('
    CV = r'tlx::Aggregate<double>::combine_variance\('
    def A(name, spec, enforce, fn, extra=(), timeout=600, tier='quick', what='', stubs=True, backend='sat', **kw):
        return Job(name=name, shim='aggregate', contract='c20_aggregate.c', harness='h_' + name, enforce=[enforce],
                   defines=['SPEC_' + spec] + list(extra), functions=fn, timeout=timeout, tier=tier, backend=backend, what=what,
                   resolve={'CMFN': CM, 'CVFN': CV},
                   replace_calls=[('CMFN', 'uf_combine_means'), ('CVFN', 'uf_combine_variance')] if stubs else [], **kw)
    js.append(A('agg_add', 'add', 'c_add', [r'tlx::Aggregate<double>::add\('], stubs=False, what='Aggregate::add: count, min, max exact; first value sets mean exactly'))
    js.append(A('agg_pure_cm', 'pure', 'c_pure', [CM], extra=['PUREFN=CMFN'], stubs=False, what='combine_means writes nothing'))
    js.append(A('agg_pure_cv', 'pure', 'c_pure', [CV], extra=['PUREFN=CVFN'], stubs=False, what='combine_variance writes nothing'))
    for left in (0, 1):
        js.append(A('agg_cm_empty_%s' % ('left' if left else 'right'), 'helper_empty', 'c_helper_empty', [CM], extra=['PUREFN=CMFN', 'WHICH_CV=0', 'EMPTY_LEFT=%d' % left], stubs=False,
                    what='combine_means with an empty %s operand returns the other mean exactly (real body)' % ('left' if left else 'right')))
        js.append(A('agg_cv_empty_%s' % ('left' if left else 'right'), 'helper_empty', 'c_helper_empty', [CV], extra=['PUREFN=CVFN', 'WHICH_CV=1', 'EMPTY_LEFT=%d' % left], stubs=False,
                    what='combine_variance with an empty %s operand returns the other variance sum exactly (real floating-point body)' % ('left' if left else 'right')))
    js.append(A('agg_cm_formula', 'helper_formula', 'c_helper_formula', [CM], extra=['PUREFN=CMFN', 'WHICH_CV=0'], stubs=False, timeout=120, backend='cvc5', what='combine_means == (m1*c1 + m2*c2)/(c1+c2) bit for bit, all counts >= 1 and all means (real floating-point body, word-level SMT back end)'))
    js.append(A('agg_cv_formula', 'helper_formula', 'c_helper_formula', [CV], extra=['PUREFN=CVFN', 'WHICH_CV=1'], stubs=False, timeout=120, backend='cvc5', what='combine_variance == v1 + v2 + delta^2 * (c1*c2)/(c1+c2) bit for bit, all counts >= 1 (real floating-point body, word-level SMT back end)'))
    # the same with the counts assigned: a refutation (a wrong weight, a wrong operand) is found in seconds here, whereas with
    # symbolic counts the SMT solver proves the correct code quickly but may not terminate on a wrong one
    for c1, c2 in [(1, 2), (3, 1)]:
        js.append(A('agg_cm_formula_c%d_%d' % (c1, c2), 'helper_formula', 'c_helper_formula', [CM], extra=['PUREFN=CMFN', 'WHICH_CV=0', 'FIX_C1=%d' % c1, 'FIX_C2=%d' % c2], stubs=False, timeout=600, backend='cvc5',
                    what='combine_means == (m1*c1 + m2*c2)/(c1+c2) bit for bit, counts %d and %d, all means (real floating-point body)' % (c1, c2)))
        js.append(A('agg_cv_formula_c%d_%d' % (c1, c2), 'helper_formula', 'c_helper_formula', [CV], extra=['PUREFN=CVFN', 'WHICH_CV=1', 'FIX_C1=%d' % c1, 'FIX_C2=%d' % c2], stubs=False, timeout=600, backend='cvc5',
                    what='combine_variance == v1 + v2 + delta^2 * (c1*c2)/(c1+c2) bit for bit, counts %d and %d (real floating-point body)' % (c1, c2)))
    js.append(A('agg_plus', 'plus', 'c_plus', [r'tlx::Aggregate<double>::operator\+\('],
                what='operator+: count/min/max exact; mean and variance sum are the helpers applied to (a, b) [helpers abstracted as uninterpreted functions]'))
    js.append(A('agg_pluseq', 'pluseq', 'c_pluseq', [r'tlx::Aggregate<double>::operator\+=\('], what='a += b leaves exactly the five fields that a + b returns [helpers abstracted as uninterpreted functions]', witness_defines=['WITNESS_GENERIC']))
    js.append(A('agg_pluseq_self', 'pluseq', 'c_pluseq', [r'tlx::Aggregate<double>::operator\+=\('], extra=['B_IS_A'], what='a += a leaves exactly what a + a returns'))
    return js


META = {
    'level': 'proof',
    'assumptions': ['the four inline-asm rotate templates (roll/rorl/rolq/rorq %cl) are mapped to C rotates by ir2c: trusted semantics',
                    'llvm.ctlz/cttz/ctpop/bswap intrinsics are mapped to CBMC built-ins of the same name: trusted semantics'],
    'not_decided': ['Aggregate: a + empty == a for mean/variance with the real floating-point helper bodies (no installed back end finishes the double multiply/divide circuits in 10 min; attempted, see DESIGN)',
                    'Aggregate: that combine_means/combine_variance depend only on the fields the uninterpreted abstraction keys on is assumed (self-composition check timed out)',
                    'round_up<int64_t> (timed out at 50 min) and the divisibility clause of round_up at 32/64 bit',
                    'Aggregate: mean and variance equal those of a single feed up to rounding (floating-point error bound; outside this technique)'],
    'explanation': 'each helper is enforced against its defining property for every argument value of its width; width-bounded loops are unwound with unwinding assertions (complete)',
}
