"""C16 -- RingBuffer is a bounded deque; RingBuffer and SimpleVector keep element lifetimes exact."""
from vlib import Job

RBF = r'tlx::RingBuffer<Elem, std::allocator<Elem> ?>::'


def R(name, op, enforce, fns, extra=(), unwind=18, timeout=300, tier='quick', what='', **kw):
    return Job(name=name, shim='ringbuffer', contract='c16_ringbuffer.c', harness='h_' + name, enforce=[enforce],
               defines=['OP_' + op] + list(extra), functions=[RBF + f for f in fns], unwind=unwind, timeout=timeout, tier=tier,
               label='bounded: capacity <= 16 (max_size 0..15), all histories by induction over operations', what=what, **kw)


def jobs(tier):
    js = []
    for v, nm, fn in [(0, 'copy', r'push_back\(Elem const&\)'), (1, 'move', r'push_back\(Elem&&\)'), (2, 'emplace', r'emplace_back<int')]:
        js.append(R('push_back_' + nm, 'push_back', 'c_push', [fn], extra=['VARIANT=%d' % v], what='push/emplace at the back: deque equation, one construction in the right slot'))
    for v, nm, fn in [(0, 'copy', r'push_front\(Elem const&\)'), (1, 'move', r'push_front\(Elem&&\)'), (2, 'emplace', r'emplace_front<int')]:
        js.append(R('push_front_' + nm, 'push_front', 'c_push', [fn], extra=['VARIANT=%d' % v], what='push/emplace at the front: deque equation, one construction in the right slot'))
    js.append(R('push_empty', 'push_empty', 'c_push_empty', [r'emplace_back<int', r'emplace_front<int'], what='first element into an empty buffer, either end'))
    js.append(R('pop_back', 'pop_back', 'c_pop', [r'pop_back\(\)'], what='pop_back: last element destroyed, the others keep value and position'))
    js.append(R('pop_front', 'pop_front', 'c_pop', [r'pop_front\(\)'], what='pop_front: first element destroyed, the others shift down by one'))
    js.append(R('pop_last', 'pop_last', 'c_pop_last', [r'pop_back\(\)', r'pop_front\(\)'], what='popping the only element from either end'))
    js.append(R('clear', 'clear', 'c_clear', [r'clear\(\)'], what='clear: every stored element destroyed exactly once, buffer empty and reusable'))
    js.append(R('observe', 'observe', 'c_observe', [r'operator\[\]\(unsigned long\)', r'front\(\)', r'back\(\)', r'size\(\) const', r'empty\(\) const'], what='operator[], front, back, size, empty, max_size, capacity report the view; frame is empty'))
    js.append(R('observe_empty', 'observe_empty', 'c_observe_empty', [r'size\(\) const', r'empty\(\) const'], what='size/empty on empty and on never-allocated buffers'))
    js.append(R('ctor', 'ctor', 'c_ctor', [r'RingBuffer\(unsigned long, std::allocator<Elem> const&\)', r'allocate\(unsigned long\)'], unwind=70, what='RingBuffer(max_size) and default+allocate(max_size), max_size 0..15'))
    js.append(R('ctor_default', 'ctor_default', 'c_ctor_default', [r'RingBuffer\(std::allocator<Elem> const&\)'], what='default constructor'))
    js.append(R('dtor', 'dtor', 'c_dtor', [r'~RingBuffer\(\)', r'deallocate\(\)'], what='destructor / deallocate: elements destroyed once, storage returned once'))
    js.append(R('dtor_unallocated', 'dtor_unallocated', 'c_dtor_un', [r'~RingBuffer\(\)', r'deallocate\(\)'], what='destructor / deallocate of a never-allocated or moved-from buffer'))
    js.append(R('copy_ctor', 'copy_ctor', 'c_copy_ctor', [r'RingBuffer\(tlx::RingBuffer<Elem, std::allocator<Elem> ?> const&\)'], timeout=600, what='copy constructor'))
    js.append(R('move_ctor', 'move_ctor', 'c_move_ctor', [r'RingBuffer\(tlx::RingBuffer<Elem, std::allocator<Elem> ?>&&\)'], what='move constructor'))
    for t in (0, 1):
        js.append(R('copy_assign_track%s' % 'ba'[t], 'copy_assign', 'c_copy_assign', [r'operator=\(tlx::RingBuffer<Elem, std::allocator<Elem> ?> const&\)'], extra=['TRACK_A=%d' % t], timeout=900, what='copy assignment a = b'))
        js.append(R('move_assign_track%s' % 'ba'[t], 'move_assign', 'c_move_assign', [r'operator=\(tlx::RingBuffer<Elem, std::allocator<Elem> ?>&&\)'], extra=['TRACK_A=%d' % t], timeout=600, what='move assignment a = std::move(b)'))
    js.append(R('self_assign', 'self_assign', 'c_self_assign', [r'operator=\(tlx::RingBuffer<Elem, std::allocator<Elem> ?> const&\)', r'operator=\(tlx::RingBuffer<Elem, std::allocator<Elem> ?>&&\)'], what='self copy- and move-assignment'))
    SVF = r'tlx::SimpleVector<Elem, \(tlx::SimpleVectorMode\)%d>::'
    def S(name, op, enforce, fns, mode=0, extra=(), unwind=7, timeout=300, what=''):
        return Job(name=name, shim='ringbuffer', contract='c16_simplevector.c', harness='h_' + name, enforce=[enforce],
                   defines=['OP_' + op, 'MODE=%d' % mode] + list(extra), functions=[(SVF % mode) + f for f in fns], unwind=unwind, timeout=timeout,
                   label='bounded: n <= 4 elements', what=what)
    for mode, mn in [(0, 'normal'), (1, 'noinit_destroy'), (2, 'noinit_nodestroy')]:
        js.append(S('sv_ctor_' + mn, 'ctor', 'c_ctor', [r'SimpleVector\(unsigned long const&\)', r'create_array'], mode, what='SimpleVector(n): constructions per mode, storage'))
        js.append(S('sv_dtor_' + mn, 'dtor', 'c_dtor', [r'~SimpleVector\(\)', r'destroy_array'], mode, what='~SimpleVector / destroy(): destructions per mode, block returned once'))
    js.append(S('sv_move_ctor', 'move_ctor', 'c_move_ctor', [r'SimpleVector\(tlx::SimpleVector<.*&&\)'], what='move constructor'))
    js.append(S('sv_move_assign', 'move_assign', 'c_move_assign', [r'operator=\(tlx::SimpleVector<.*&&\)'], what='move assignment a = std::move(b)'))
    js.append(S('sv_self_move_assign', 'self_move_assign', 'c_self', [r'operator=\(tlx::SimpleVector<.*&&\)'], what='self move assignment'))
    js.append(S('sv_swap', 'swap', 'c_swap', [r'swap\('], what='swap'))
    js.append(S('sv_resize', 'resize', 'c_resize', [r'resize\(unsigned long\)'], what='resize(m), n,m >= 1'))
    js.append(S('sv_resize_edge', 'resize_edge', 'c_resize_edge', [r'resize\(unsigned long\)'], what='resize from/to zero'))
    js.append(S('sv_fill', 'fill', 'c_fill', [r'fill\(Elem const&\)', r'size\(\) const', r'operator\[\]'], what='fill, size, operator[]'))
    return js


META = {
    'level': 'other',
    'assumptions': ['element type = struct Elem {int v;} whose special members call the ghost ledger hooks; other element types are covered by the template being generic in Type (not machine-checked)',
                    'induction over the operation history (invariant holds initially and is preserved by every operation) is the stated composition step'],
    'not_decided': ['capacities above 16', 'copy_to / move_to into std::vector', 'behaviour of moved-from buffers beyond "no storage, size 0"'],
    'explanation': 'every RingBuffer operation enforced from an arbitrary well-formed state with symbolic capacity <= 16, cursors and contents; ghost slot index for the lifetime ledger, ghost position for the deque view',
}
