"""C13 -- the heaps always surface a minimum element and track membership correctly."""
from vlib import Job

AHF = r'tlx::DAryAddressableIntHeap<unsigned int, %du, (std::less<unsigned int>|PrioCmp) ?>::'
DHF = r'tlx::DAryHeap<unsigned int, %du, (std::less<unsigned int>|PrioCmp) ?>::'
LABEL = 'bounded: heap size <= %d, key universe %d; all histories by induction over operations'


MODE = 'assert'


def H(name, op, enforce, fns, arity, prio, addr, extra=(), unwind=10, timeout=900, tier='quick', what=''):
    nmax, hmax = (4, 5)      # larger bounds (6, 8) were planned for the thorough tier; a full run of them could not be validated in time
    pf = (AHF if addr else DHF) % arity
    cfg = 'a%d%s' % (arity, 'p' if prio else 'l')
    return Job(name='%s_%s_%s' % ('ah' if addr else 'dh', name, cfg), shim='dheap', contract='c13_dheap.c', harness='h_' + name, enforce=[enforce],
               shim_defines=['ARITY=%d' % arity, 'CMP_PRIO=%d' % prio],
               defines=['OP_' + op, 'ARITY=%d' % arity, 'CMP_PRIO=%d' % prio, 'NMAX=%d' % nmax, 'HMAX=%d' % hmax] + (['ADDRESSABLE'] if addr else []) + list(extra), object_bits=10,
               functions=[pf + f for f in fns], unwind=unwind, timeout=timeout, tier=tier, mode=MODE, mem_gb=(4 if op in ('build', 'update_all') else 2),
               resolve={'OPT_CHECKLEN': r'^std::vector<unsigned int, std::allocator<unsigned int> ?>::_M_check_len\(', 'OPT_ALLOCCOPY': r'^unsigned int\* std::vector<unsigned int, std::allocator<unsigned int> ?>::_M_allocate_and_copy<'},
               replace_calls=[('OPT_CHECKLEN', 'stub_no_realloc_len'), ('OPT_ALLOCCOPY', 'stub_no_realloc_copy')], label=LABEL % (nmax, hmax), what=what)


# ---- RadixHeap leaf functions (shims/radixheap.cpp, contracts/c13_radixheap.c) ----
KEYS = {'u8': ('uint8_t', 8, 0), 'i8': ('int8_t', 8, 1), 'u16': ('uint16_t', 16, 0), 'i16': ('int16_t', 16, 1),
        'u32': ('uint32_t', 32, 0), 'i32': ('int32_t', 32, 1), 'u64': ('uint64_t', 64, 0), 'i64': ('int64_t', 64, 1)}


def rh_num_buckets(radix, bits):
    """BucketComputation::num_buckets from its definition in the header comment: (Radix - 1) buckets per full row of
    radix_bits bits, 2^rest - 1 for the incomplete top row, plus bucket 0"""
    rb = radix.bit_length() - 1
    n = 0
    while bits >= rb: n += radix - 1; bits -= rb
    return n + (1 << bits) - 1 + 1


def rh_jobs(js):
    quick = {(r, k) for r in (2, 4, 8, 16, 32, 64) for k in KEYS}       # 344 loop-free jobs, half a minute on 16 cores
    for radix in (2, 4, 8, 16, 32, 64):
        for kn, (kt, bits, sg) in KEYS.items():
            t = 'quick' if (radix, kn) in quick else 'thorough'
            nb = rh_num_buckets(radix, bits)
            rec = nb > 64
            nch = (nb + 63) // 64 if rec else 1
            sd = ['KEY_T=%s' % kt, 'RADIX=%d' % radix]
            d = sd + ['KBITS=%d' % bits, 'KSIGNED=%d' % sg, 'NB=%d' % nb, 'BA_REC=%d' % rec, 'NCH=%d' % nch]
            tag = 'r%d_%s' % (radix, kn)
            def RJ(name, op, enforce, fns, extra=(), unwind=8, **kw):
                js.append(Job(name='rh_%s_%s' % (name, tag), shim='radixheap', contract='c13_radixheap.c', harness='h_rh_' + name, enforce=[enforce], shim_defines=sd,
                              defines=['OP_' + op] + d + list(extra), functions=fns, unwind=unwind, tier=t, timeout=600, label='complete: all %d-bit keys, radix %d' % (bits, radix), **kw))
            IR = r'tlx::radix_heap_detail::IntegerRank<.*>::'
            BC = r'tlx::radix_heap_detail::BucketComputation<.*>::'
            BA = r'tlx::radix_heap_detail::BitArray(Recursive)?<.*>::'
            if radix == 8:    # IntegerRank does not depend on the radix
                RJ('rank', 'rank', 'c_rank', [IR + 'rank_of_int', IR + 'int_at_rank'], what='IntegerRank<%s>: order-preserving, int_at_rank inverts rank_of_int' % kt)
            for w, nm, enf, wh in [(0, 'range', 'c_bucket_range', 'bucket index < num_buckets, bucket 0 <=> key == limit, first row holds one key per bucket'),
                                   (1, 'mono', 'c_bucket_mono', 'bucket index is monotone in the key'),
                                   (2, 'redistribute', 'c_bucket_redistribute', 'keys of the redistributed bucket land strictly below it under the new limit'),
                                   (3, 'stable', 'c_bucket_stable', 'keys of buckets above the redistributed one keep their bucket under the new limit'),
                                   (4, 'bounds', 'c_bucket_bounds', 'lower_bound / upper_bound delimit the keys of a bucket (limit 0)')]:
                RJ('bucket_' + nm, 'bucket', enf, [BC + r'operator\(\)', BC + 'lower_bound', BC + 'upper_bound'][:1 if w < 4 else 3], ['WHICH=%d' % w], what='BucketComputation<%d, rank of %s>: %s' % (radix, kt, wh))
            if sg == 0:       # the BitArray depends on num_buckets only: same for the signed type of the same width
                for w, nm, enf, fn, wh in [(0, 'set', 'c_ba_set', ['set_bit'], 'set_bit(i) sets exactly bit i'), (1, 'clear', 'c_ba_clear', ['clear_bit'], 'clear_bit(i) clears exactly bit i'),
                                           (2, 'find_lsb', 'c_ba_find_lsb', ['find_lsb'], 'find_lsb() is the smallest set index'), (3, 'empty', 'c_ba_empty', ['empty', 'clear_all'], 'empty() / clear_all() / constructor')]:
                    RJ('ba_' + nm, 'bitarray', enf, [BA + x for x in fn], ['WHICH=%d' % w], mode='assert', unwind=nch * 8 + 16, resolve_types={'BA_T': r'^S_class_tlx__radix_heap_detail__BitArray$'},
                       what='BitArray<%d>: %s, from any well-formed state' % (nb, wh))


def rh_class_jobs(js):
    """RadixHeap<K, identity, K, Radix> itself, from an arbitrary well-formed heap (contracts/c13_radixheap_class.c)"""
    RHF = r'tlx::RadixHeap<.*>::'
    for radix, kn, t in [(2, 'i8', 'quick')]:     # a second configuration (uint8_t, radix 4, 13 buckets) was planned; its struct layout differs and it was not finished
        kt, bits, sg = KEYS[kn]
        nb = rh_num_buckets(radix, bits)
        sd = ['KEY_T=%s' % kt, 'RADIX=%d' % radix]
        d = sd + ['KBITS=%d' % bits, 'KSIGNED=%d' % sg, 'NB=%d' % nb, 'CAP=3', 'TOT=3']
        for name, op, enf, fns, extra, what in [
                ('push', 'push', 'c_push', [r'push\(', r'push_to_bucket\('], [], 'push(k), k not below the last top()/pop(): invariant, contents + {k}, returned bucket'),
                ('top', 'top', 'c_top', [r'top\(\)', r'reorganize_\(\)'], ['WHICH=0'], 'top() is a smallest stored key; contents unchanged; invariant with the new frontier'),
                ('peak_top_key', 'top', 'c_top', [r'peak_top_key\(\)'], ['WHICH=1'], 'peak_top_key() is the smallest stored key and changes nothing'),
                ('pop', 'pop', 'c_pop', [r'pop\(\)', r'reorganize_\(\)'], [], 'pop() removes exactly one occurrence of the smallest key'),
                ('clear', 'clear', 'c_clear', [r'clear\(\)', r'initialize_\(\)'], [], 'clear(): empty and indistinguishable from a new heap')]:
            js.append(Job(name='rhc_%s_r%d_%s' % (name, radix, kn), shim='radixheap', contract='c13_radixheap_class.c', harness='h_rhc_' + name, enforce=[enf], shim_defines=sd,
                          defines=['OP_' + op] + d + extra, functions=[RHF + x for x in fns], unwind=nb + 3, tier=t, timeout=1500, mode='assert', object_bits=10, mem_gb=4,
                          resolve={'REALLOC_C': r'_M_realloc_insert<(un)?signed char const&>', 'REALLOC_M': r'_M_realloc_insert<(un)?signed char>\('},
                          resolve_types={'RH_T': r'^S_class_tlx__RadixHeap$', 'VEC_T': r'^S_class_std__vector$'},
                          replace_calls=[('REALLOC_C', 'stub_no_realloc_insert'), ('REALLOC_M', 'stub_no_realloc_insert')],
                          label='bounded: at most 3 keys in the heap (every distribution over the %d buckets), all %d-bit keys, radix %d; one step from any well-formed heap' % (nb, bits, radix),
                          what='RadixHeap<%s, radix %d>: %s' % (kt, radix, what)))


def jobs(tier):
    js = []
    cfgs = [(2, 0, 'quick'), (3, 1, 'quick'), (4, 0, 'thorough'), (8, 0, 'thorough')]
    VEC = r'std::vector<unsigned int, std::allocator<unsigned int> ?>'
    for ar, prio, t in cfgs:
        nmax, hmax = (4, 5)
        def A(name, op, enforce, fns, extra=(), **kw):
            js.append(H(name, op, enforce, fns, ar, prio, 1, extra, tier=t, **kw))
        def D(name, op, enforce, fns, extra=(), **kw):
            js.append(H(name, op, enforce, fns, ar, prio, 0, extra, tier=t, **kw))
        # operations that can grow a vector: one job per (heap size, handles size) so that sizes are constants
        for n in range(0, nmax):
            for hs in (hmax, 2):
                if hs < n: continue
                sz = ['FIX_N=%d' % n, 'FIX_HS=%d' % hs]; tag = '_n%d_h%d' % (n, hs)
                A('push' + tag, 'push', 'c_push', [r'push\(unsigned int const&\)', r'sift_up'], ['MOVE=0'] + sz, what='push(const&), heap size %d, handles size %d: invariant, membership = old + {k}, top minimal' % (n, hs))
                A('push_move' + tag, 'push', 'c_push', [r'push\(unsigned int&&\)'], ['MOVE=1'] + sz, what='push(&&), heap size %d, handles size %d' % (n, hs))
                A('update_absent' + tag, 'update_absent', 'c_update_absent', [r'update\(unsigned int\)'], sz, what='update(k) of an absent key adds it, heap size %d, handles size %d' % (n, hs))
            D('push_n%d' % n, 'push', 'c_push', [r'push\(unsigned int const&\)', r'sift_up'], ['MOVE=0', 'FIX_N=%d' % n], what='DAryHeap push(const&), heap size %d' % n)
            D('push_move_n%d' % n, 'push', 'c_push', [r'push\(unsigned int&&\)'], ['MOVE=1', 'FIX_N=%d' % n], what='DAryHeap push(&&), heap size %d' % n)
        # heapify-based jobs are the expensive ones (4-5 minutes each): one size in the quick tier, all sizes in thorough
        for n in sorted(set([0, 2, nmax])):
            sz = ['FIX_N=%d' % n, 'FIX_HS=%d' % hmax]
            tq = t if n == 2 else 'thorough'
            js.append(H('update_all_n%d' % n, 'update_all', 'c_update_all', [r'update_all\(\)', r'heapify\(\)'], ar, prio, 1, sz, tier=tq, what='update_all() after arbitrary priority changes, heap size %d' % n))
            js.append(H('update_all_n%d' % n, 'update_all', 'c_update_all', [r'update_all\(\)', r'heapify\(\)'], ar, prio, 0, ['FIX_N=%d' % n], tier=tq, what='DAryHeap update_all(), heap size %d' % n))
        # build_heap: one job per number of keys m, on an empty heap and on a heap of 3 keys
        # build_heap(first, last) and build_heap(const vector&) go through libstdc++'s vector::assign / resize, whose symbolic
        # paths exhaust the solver's memory even at fixed sizes: NOT DECIDED; the rvalue overload shares heapify() with them
        for k, nm, fn in [(2, 'move', r'build_heap\(' + VEC + r'&&\)')]:
            for m in sorted(set([0, 1, 2, nmax])):
                tq = t if m == 2 else 'thorough'
                js.append(H('build_%s_empty_m%d' % (nm, m), 'build', 'c_build', [fn], ar, prio, 1, ['KIND=%d' % k, 'FROM_EMPTY', 'FIX_N=0', 'FIX_HS=%d' % hmax, 'FIX_M=%d' % m], unwind=12, tier='thorough', what='build_heap (%s) of %d keys on an empty heap: exactly the given keys' % (nm, m)))
                js.append(H('build_%s_used_m%d' % (nm, m), 'build', 'c_build', [fn], ar, prio, 1, ['KIND=%d' % k, 'FIX_N=3', 'FIX_HS=%d' % hmax, 'FIX_M=%d' % m], unwind=12, tier=tq, what='build_heap (%s) of %d keys on a heap that holds 3 keys: exactly the given keys, no stale membership' % (nm, m)))
                js.append(H('build_%s_m%d' % (nm, m), 'build', 'c_build', [fn], ar, prio, 0, ['KIND=%d' % k, 'FIX_N=3', 'FIX_M=%d' % m], unwind=12, tier=tq, what='DAryHeap build_heap (%s) of %d keys' % (nm, m)))
        # operations that never grow a vector: symbolic sizes
        A('remove', 'remove', 'c_remove', [r'remove\(unsigned int\)', r'sift_down'], ['KIND=0'], what='remove(k) of an arbitrary present key (incl. the last slot)')
        A('pop', 'remove', 'c_remove', [r'pop\(\)'], ['KIND=1'], what='pop()')
        A('extract_top', 'remove', 'c_remove', [r'extract_top\(\)'], ['KIND=2'], what='extract_top() returns and removes the top')
        if prio:
            A('update', 'update', 'c_update', [r'update\(unsigned int\)'], what='update(k) after the priority of k changed arbitrarily')
        A('clear', 'clear', 'c_clear', [r'clear\(\)'], what='clear(): empty, no key contained')
        A('observe', 'observe', 'c_observe', [r'contains\(unsigned int\) const', r'size\(\) const', r'empty\(\) const', r'top\(\) const'], what='contains/size/empty/top; frame empty')
        D('pop', 'pop', 'c_pop', [r'pop\(\)', r'sift_down'], ['KIND=1'], what='DAryHeap pop()')
        D('extract_top', 'pop', 'c_pop', [r'extract_top\(\)'], ['KIND=2'], what='DAryHeap extract_top()')
        D('observe', 'observe', 'c_observe', [r'size\(\) const', r'empty\(\) const', r'top\(\) const'], what='DAryHeap size/empty/top')
        D('clear', 'clear', 'c_clear', [r'clear\(\)'], what='DAryHeap clear()')
    rh_jobs(js)
    rh_class_jobs(js)
    return js


META = {
    'level': 'other',
    'assumptions': ['key type uint32_t; comparators std::less and a comparator reading a symbolic external priority table',
                    'induction over the operation history is the stated composition step'],
    'not_decided': ['d-ary heaps larger than 4 elements (handles up to 5); arities other than 2, 3 (quick) and 4, 8 (thorough)', 'build_heap(first, last) and build_heap(const std::vector&): libstdc++ assign/resize paths exhaust solver memory (the rvalue overload, which shares heapify(), is covered)', 'std::vector growth beyond the capacity provided by the harness (reallocation entry points are replaced by stubs that fail when reached)', 'sanity_check() (std::queue internals)', 'RadixHeap: more than 3 keys in the heap, key types and radices other than int8_t / radix 2 at class level (the leaf functions are decided for every radix and key type), emplace variants, swap_top_bucket, RadixHeapPair'],
    'explanation': 'every heap operation enforced from an arbitrary well-formed heap; membership by ghost key, multiset by ghost value; growing operations one job per size',
}
