"""C13 -- the heaps always surface a minimum element and track membership correctly."""
from vlib import Job

AHF = r'tlx::DAryAddressableIntHeap<unsigned int, %du, (std::less<unsigned int>|PrioCmp) ?>::'
DHF = r'tlx::DAryHeap<unsigned int, %du, (std::less<unsigned int>|PrioCmp) ?>::'
LABEL = 'bounded: heap size <= %d, key universe %d; all histories by induction over operations'


def H(name, op, enforce, fns, arity, prio, addr, extra=(), unwind=10, timeout=900, tier='quick', what=''):
    nmax, hmax = (5, 6) if tier == 'quick' else (6, 8)
    pf = (AHF if addr else DHF) % arity
    cfg = 'a%d%s' % (arity, 'p' if prio else 'l')
    return Job(name='%s_%s_%s' % ('ah' if addr else 'dh', name, cfg), shim='dheap', contract='c13_dheap.c', harness='h_' + name, enforce=[enforce],
               shim_defines=['ARITY=%d' % arity, 'CMP_PRIO=%d' % prio],
               defines=['OP_' + op, 'ARITY=%d' % arity, 'CMP_PRIO=%d' % prio, 'NMAX=%d' % nmax, 'HMAX=%d' % hmax] + (['ADDRESSABLE'] if addr else []) + list(extra), object_bits=10,
               functions=[pf + f for f in fns], unwind=unwind, timeout=timeout, tier=tier, label=LABEL % (nmax, hmax), what=what)


def jobs(tier):
    js = []
    cfgs = [(2, 0, 'quick'), (3, 1, 'quick'), (1, 0, 'thorough'), (4, 0, 'thorough'), (8, 0, 'thorough'), (2, 1, 'thorough'), (3, 0, 'thorough')]
    for ar, prio, t in cfgs:
        def A(name, op, enforce, fns, extra=(), **kw):
            js.append(H(name, op, enforce, fns, ar, prio, 1, extra, tier=t, **kw))
        def D(name, op, enforce, fns, extra=(), **kw):
            js.append(H(name, op, enforce, fns, ar, prio, 0, extra, tier=t, **kw))
        A('push', 'push', 'c_push', [r'push\(unsigned int const&\)', r'sift_up'], ['MOVE=0'], what='push(const&): invariant, size+1, membership = old + {k}, top minimal')
        A('push_move', 'push', 'c_push', [r'push\(unsigned int&&\)'], ['MOVE=1'], what='push(&&)')
        A('remove', 'remove', 'c_remove', [r'remove\(unsigned int\)', r'sift_down'], ['KIND=0'], what='remove(k) of an arbitrary present key (incl. the last slot)')
        A('pop', 'remove', 'c_remove', [r'pop\(\)'], ['KIND=1'], what='pop()')
        A('extract_top', 'remove', 'c_remove', [r'extract_top\(\)'], ['KIND=2'], what='extract_top() returns and removes the top')
        if prio:
            A('update', 'update', 'c_update', [r'update\(unsigned int\)'], what='update(k) after the priority of k changed arbitrarily')
        A('update_absent', 'update_absent', 'c_update_absent', [r'update\(unsigned int\)'], what='update(k) of an absent key adds it')
        A('update_all', 'update_all', 'c_update_all', [r'update_all\(\)', r'heapify\(\)'], what='update_all() after arbitrary priority changes')
        for k, nm, fn in [(0, 'range', r'build_heap<unsigned int const\*>'), (1, 'copy', r'build_heap\(std::vector<unsigned int, std::allocator<unsigned int> ?> const&\)'), (2, 'move', r'build_heap\(std::vector<unsigned int, std::allocator<unsigned int> ?>&&\)')]:
            A('build_%s_empty' % nm, 'build', 'c_build', [fn], ['KIND=%d' % k, 'FROM_EMPTY'], unwind=12, timeout=900, what='build_heap (%s) on an empty heap: exactly the given keys' % nm)
            A('build_%s' % nm, 'build', 'c_build', [fn], ['KIND=%d' % k], unwind=12, timeout=900, what='build_heap (%s) on ANY heap: exactly the given keys, no stale membership' % nm)
        A('clear', 'clear', 'c_clear', [r'clear\(\)'], what='clear(): empty, no key contained')
        A('observe', 'observe', 'c_observe', [r'contains\(unsigned int\) const', r'size\(\) const', r'empty\(\) const', r'top\(\) const'], what='contains/size/empty/top; frame empty')
        D('push', 'push', 'c_push', [r'push\(unsigned int const&\)', r'sift_up'], ['MOVE=0'], what='DAryHeap push(const&): multiset + order')
        D('push_move', 'push', 'c_push', [r'push\(unsigned int&&\)'], ['MOVE=1'], what='DAryHeap push(&&)')
        D('pop', 'pop', 'c_pop', [r'pop\(\)', r'sift_down'], ['KIND=1'], what='DAryHeap pop()')
        D('extract_top', 'pop', 'c_pop', [r'extract_top\(\)'], ['KIND=2'], what='DAryHeap extract_top()')
        D('update_all', 'update_all', 'c_update_all', [r'update_all\(\)', r'heapify\(\)'], what='DAryHeap update_all()')
        for k, nm, fn in [(0, 'range', r'build_heap<unsigned int const\*>'), (1, 'copy', r'build_heap\(std::vector<unsigned int, std::allocator<unsigned int> ?> const&\)'), (2, 'move', r'build_heap\(std::vector<unsigned int, std::allocator<unsigned int> ?>&&\)')]:
            D('build_' + nm, 'build', 'c_build', [fn], ['KIND=%d' % k], unwind=12, timeout=900, what='DAryHeap build_heap (%s)' % nm)
        D('observe', 'observe', 'c_observe', [r'size\(\) const', r'empty\(\) const', r'top\(\) const'], what='DAryHeap size/empty/top')
        D('clear', 'clear', 'c_clear', [r'clear\(\)'], what='DAryHeap clear()')
    return js


META = {
    'level': 'other',
    'assumptions': ['key type uint32_t; comparators std::less and a comparator reading a symbolic external priority table',
                    'induction over the operation history is the stated composition step'],
    'not_decided': ['heaps larger than 6 elements', 'sanity_check() (std::queue internals) and RadixHeap container operations are not under contract in this version'],
    'explanation': 'every heap operation enforced from an arbitrary well-formed heap; membership by ghost key, multiset by ghost value',
}
