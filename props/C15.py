"""C15 -- the sorting networks sort every input of up to sixteen elements."""
from vlib import Job

FAM = [('best', 'best'), ('bn', 'bose_nelson'), ('bnp', 'bose_nelson_parameter')]


BYTES_UPTO = 4
TO = 600


def jobs(tier):
    js = []
    for cmp in ('less', 'greater'):
        g = ['GREATER'] if cmp == 'greater' else []
        js.append(Job(name='cswap_' + cmp, shim='networks', contract='c15_networks.c', harness='h_cswap_' + cmp, enforce=['c_cswap'],
                      defines=['CSWAP', 'FN=w_cswap_' + cmp] + g, functions=[r'tlx::sort_networks::CS_IfSwap<std::%s<unsigned char> ?>::operator\(\)' % cmp],
                      what='CS_IfSwap::operator(): pair in order afterwards, same two values'))
        for short, ns in FAM:
            for n in range(2, 17):
              for zo in ((0, 1) if n <= BYTES_UPTO else (1,)):
                js.append(Job(name='%s_sort%d_%s%s' % (short, n, cmp, '_01' if zo else ''), shim='networks', contract='c15_networks.c', harness='h_%s_sort%d_%s' % (short, n, cmp),
                              enforce=['c_sort'], defines=['N=%d' % n, 'FN=w_%s_sort%d_%s' % (short, n, cmp)] + g + (['ZERO_ONE'] if zo else []), unwind=18, timeout=TO, object_bits=11, tier='quick' if cmp == 'less' else 'thorough',
                              functions=[r'tlx::sort_networks::%s::sort%d<' % (ns, n)],
                              what='%s::sort%d with std::%s: output ordered and a permutation, %s' % (ns, n, cmp, 'all 2^%d zero-one inputs (zero-one principle)' % n if zo else 'all 256^%d byte inputs' % n)))
            for n in range(0, 17):
                js.append(Job(name='%s_dispatch%d_%s' % (short, n, cmp), shim='networks', contract='c15_networks.c', harness='h_%s_dispatch%d_%s' % (short, n, cmp),
                              enforce=['c_sort'], defines=['DISPATCH', 'DISPATCH_N=%d' % n, 'ZERO_ONE', 'FN=w_%s_sort_%s' % (short, cmp)] + g, unwind=18, timeout=TO, object_bits=11,
                              tier='quick' if cmp == 'less' else 'thorough',
                              functions=[r'tlx::sort_networks::%s::sort<unsigned char\*, std::%s<unsigned char> ?>' % (ns, cmp)],
                              what='%s::sort(begin, end, std::%s) with end - begin == %d, all zero-one contents' % (ns, cmp, n)))
    return js


META = {
    'level': 'proof',
    'assumptions': ['zero-one principle: a network that sorts all 2^n zero-one inputs sorts every input, given that it touches the data only through the compare-exchange functor (CS_IfSwap contract: job cswap_*); sizes 2..4 are additionally proved over all byte values without it',
                    'element type uint8_t with std::less and std::greater; "any strict weak order / any element type" rests on the comparator-network argument (the networks touch the data only through the compare-exchange functor)'],
    'not_decided': [],
    'explanation': 'each network is loop-free; enforced on fully symbolic byte arrays, which include all 0/1 inputs of the zero-one principle',
}
