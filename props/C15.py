"""C15 -- the sorting networks sort every input of up to sixteen elements."""
from vlib import Job

FAM = [('best', 'best'), ('bn', 'bose_nelson'), ('bnp', 'bose_nelson_parameter')]


BYTES_UPTO = 6
TO = 120


def jobs(tier):
    js = []
    for cmp in ('less', 'greater'):
        g = ['GREATER'] if cmp == 'greater' else []
        js.append(Job(name='cswap_' + cmp, shim='networks', contract='c15_networks.c', harness='h_cswap_' + cmp, enforce=['c_cswap'],
                      defines=['CSWAP', 'FN=w_cswap_' + cmp] + g, functions=[r'tlx::sort_networks::CS_IfSwap<std::%s<unsigned char> ?>::operator\(\)' % cmp],
                      what='CS_IfSwap::operator(): pair in order afterwards, same two values'))
        for short, ns in FAM:
            for n in range(2, 17):
              for zo in ((0, 1) if n <= BYTES_UPTO else (1,)):
                js.append(Job(name='%s_sort%d_%s%s' % (short, n, cmp, '_01' if zo else ''), shim='networks', contract='c15_networks.c', harness='h_%s_sort%d_%s' % (short, n, cmp),
                              enforce=['c_sort'], defines=['N=%d' % n, 'FN=w_%s_sort%d_%s' % (short, n, cmp)] + g + (['ZERO_ONE'] if zo else []), unwind=18, timeout=TO, object_bits=11,
                              functions=[r'tlx::sort_networks::%s::sort%d<' % (ns, n)],
                              what='%s::sort%d with std::%s: output ordered and a permutation, all 256^%d inputs' % (ns, n, cmp, n)))
            js.append(Job(name='%s_dispatch_%s' % (short, cmp), shim='networks', contract='c15_networks.c', harness='h_%s_dispatch_%s' % (short, cmp),
                          enforce=['c_sort'], defines=['DISPATCH', 'FN=w_%s_sort_%s' % (short, cmp)] + g, unwind=18, timeout=1500, object_bits=11,
                          functions=[r'tlx::sort_networks::%s::sort<unsigned char\*, std::%s<unsigned char> ?>' % (ns, cmp)],
                          what='%s::sort(begin, end, std::%s): every n in 0..16, every content' % (ns, cmp)))
    return js


META = {
    'level': 'proof',
    'assumptions': ['element type uint8_t with std::less and std::greater; "any strict weak order / any element type" rests on the comparator-network argument (the networks touch the data only through the compare-exchange functor)'],
    'not_decided': [],
    'explanation': 'each network is loop-free; enforced on fully symbolic byte arrays, which include all 0/1 inputs of the zero-one principle',
}
