"""C14 -- digests equal their standards for every message and every chunking (MD5, SHA-1, SHA-256, SHA-512); portable SipHash-2-4."""
import os, subprocess, sys
from vlib import Job, VERIF

NAMES = ['MD5', 'SHA1', 'SHA256', 'SHA512']
COMP = [r'tlx::digest_detail::md5_compress\(', r'tlx::digest_detail::sha1_compress\(', r'tlx::\(anonymous namespace\)::sha256_compress\(unsigned int\*, unsigned char const\*\)$', r'tlx::digest_detail::sha512_compress\(unsigned long\*, unsigned char const\*\)$']
SPECDIR = os.path.join(VERIF, 'build', 'C14-spec')


def prepare():
    """generate the constants from their definitions and check my transcription of the standards against hashlib"""
    p = subprocess.run([sys.executable, os.path.join(VERIF, 'spec', 'validate_spec.py'), SPECDIR], stdout=subprocess.PIPE, stderr=subprocess.STDOUT)
    if p.returncode != 0:
        print('UNDECIDED: reference text of the standards failed its own sanity check: ' + p.stdout.decode()[-500:]); sys.exit(2)
    exe = os.path.join(SPECDIR, 'validate_siphash')
    p = subprocess.run('gcc -O1 -I%s %s -o %s && %s' % (os.path.join(VERIF, 'spec'), os.path.join(VERIF, 'spec', 'validate_siphash.c'), exe, exe), shell=True, stdout=subprocess.PIPE, stderr=subprocess.STDOUT)
    if p.returncode != 0:
        print('UNDECIDED: SipHash reference text failed the published test vectors: ' + p.stdout.decode()[-500:]); sys.exit(2)


def jobs(tier):
    prepare()
    inc = ['-I' + os.path.join(VERIF, 'spec'), '-I' + SPECDIR]
    js = []
    for dg, nm in enumerate(NAMES):
        def J(name, op, enforce, fns, extra=(), stub=True, **kw):
            js.append(Job(name='%s_%s' % (nm.lower(), name), shim='digest', contract='c14_digest.c', harness='h_%s_%s' % (nm.lower(), name), enforce=[enforce],
                          shim_defines=['DG=%d' % dg], defines=['OP_' + op, 'DG=%d' % dg] + list(extra), functions=fns, include_dirs=[os.path.join(VERIF, 'spec'), SPECDIR],
                          resolve={'COMPFN': COMP[dg], 'PROCFN': r'tlx::%s::process\(void const\*, unsigned int\)' % nm}, replace_calls=[('COMPFN', 'uf_compress')] if stub else [], mode='assert' if stub else 'dfcc', **kw))
        J('init', 'init', 'c_init', [r'tlx::%s::%s\(\)' % (nm, nm)], stub=False, what='%s(): initial state equals the standard H0, empty buffer' % nm)
        blk = 128 if dg == 3 else 64
        # one job per buffered length curlen_ (symbolic curlen_ AND size: no back end finishes in 25 min); each job takes
        # 1-8 minutes, so the quick tier takes the two boundary values (not for SHA-512), the thorough tier adds 0, 2, the
        # middle and the values around the padding threshold of finalize (9 values per digest).  Other curlen_ values are
        # NOT run (listed under not_decided): a full sweep of all 320 values takes about two hours on 16 cores.
        for cur in (sorted(set([0, 1, 2, blk // 2, blk - 9, blk - 8, blk - 7, blk - 2, blk - 1])) if dg != 3 else [0, 1, 2]):   # SHA-512: 10-20 min per job
            quick = cur in (1, blk - 1) and dg != 3
            J('process_c%d' % cur, 'process', 'c_process', [r'tlx::%s::process\(void const\*, unsigned int\)' % nm], ['FIX_CUR=%d' % cur], unwind=2 * blk + 12, unwindset=(['{PROCFN}.1:6', '{PROCFN}.0:%d' % (blk + 2)] if dg != 2 else ['{PROCFN}.0:6']) + ['ir_memmove.0:%d' % (blk + 2), 'ir_memmove.1:%d' % (blk + 2), 'ir_memcpy.0:%d' % (blk + 2)], timeout=(2700 if dg == 3 else 900),
              tier='quick' if quick else 'thorough', cbmc_flags=['--no-standard-checks', '--pointer-check', '--bounds-check'],
              label='bounded: size <= %d bytes (two blocks + 7), curlen_ = %d, every offset' % (2 * blk + 7, cur),
              what='%s::process with %d buffered bytes: blocks fed = consecutive slices of (buffer ++ data), tail buffered, length_ counts compressed bits [compress abstracted by a logging stub]' % (nm, cur))
        J('finalize', 'finalize', 'c_finalize', [r'tlx::%s::finalize\(void\*\)' % nm], unwind=blk + 4, timeout=900,
          what='%s::finalize: exactly the standard padding for every curlen_ / length_, one or two blocks, output in the standard byte order' % nm)
        # compress == transcription of the standard: NOT in the job list.  cvc5 proved SHA-256 in an early probe when both
        # sides used the same Ch/Maj formulation, but against spec/digest_spec.h (FIPS formulation) no back end finishes
        # (MD5, SHA-1: 27 min; SHA-256, SHA-512: > 8 min under load, never validated): listed under not_decided.
    # SipHash-2-4, portable implementation: one job per message length 0..23 (0-2 full blocks, every tail length)
    for n in list(range(0, 24)) + [130, 255]:     # 130 / 255: the length byte (len mod 256) beyond 7 bits
        js.append(Job(name='siphash_plain_n%d' % n, shim='siphash', contract='c14_siphash.c', harness='h_siphash_n%d' % n, enforce=['c_siphash'], defines=['FIX_LEN=%d' % n],
                      functions=[r'tlx::siphash_plain\('], include_dirs=[os.path.join(VERIF, 'spec')], unwind=max(26, n + 4), timeout=900, mode=('assert' if n > 23 else 'dfcc'), mem_gb=(6 if n > 23 else 1), backend=os.environ.get('SIP_BE', 'cvc5'), tier='quick',
                      label='complete for messages of %d bytes: all keys, all contents' % n,
                      what='siphash_plain on a %d-byte message equals SipHash-2-4 of the paper for every key and message' % n))
    return js


META = {
    'level': 'other',
    'assumptions': ['process / finalize contracts are enforced by rewriting (assert mode: goto-instrument --dfcc runs out of memory on the unwound block loops), so their assigns clauses are not checked', 'reference text = spec/digest_spec.h (my transcription of RFC 1321 / FIPS 180-4, constants generated from their definitions, validated against hashlib on every run)',
                    'composition step (stated, with its first premise NOT machine-checked): compress == standard, process feeds the stream in block order, finalize feeds the standard padding => digest == standard for every chunking'],
    'not_decided': ['process() for a single call of more than two blocks + 7 bytes (longer inputs: same loop body)', 'process() with a number of buffered bytes other than 0, 1, 2, block/2, block-9 .. block-7, block-2, block-1 (one job per value; the others are not run)', 'digest()/digest_hex()/xxx_hex() string wrappers (std::string + hexdump: see C19)',
                    'siphash_sse2 (vector intrinsics are outside the translator) and therefore tlx::siphash() where it dispatches to SSE2; siphash_plain for messages longer than 23 bytes (same loop body)', 'the compression functions themselves (md5_compress, sha1_compress, sha256_compress, sha512_compress == the standard round functions): no back end finishes the equivalence; process / finalize are decided RELATIVE to the compression function (it is replaced by a logging stub), so a wrong round constant or rotation inside compress is NOT detected by this check'],
    'explanation': 'layered contracts: init == H0, process == stream-to-block contract with a ghost stream offset, finalize == padding contract (compress abstracted, its own equivalence not decided); siphash_plain == SipHash-2-4',
}
