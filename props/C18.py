"""C18 -- StringView answers every query exactly like std::string_view."""
from vlib import Job
import re

SV = r'tlx::StringView::'


def J(name, op, enforce, fns, extra=(), unwind=8, timeout=600, what='', tier='quick'):
    return Job(name=name, shim='stringview', contract='c18_stringview.c', harness='h_' + name, enforce=[enforce],
               defines=['OP_' + op] + list(extra), functions=[SV + f for f in fns], unwind=unwind, timeout=timeout, tier=tier,
               label='bounded: haystack <= 4 bytes, needle <= 3 bytes; all byte values, all pos/n', what=what)


def jobs(tier):
    js = []
    cmpn = ['compare', 'compare_cstr', 'eq', 'ne', 'lt', 'gt', 'le', 'ge']
    cmpf = [r'compare\(tlx::StringView\) const', r'compare\(char const\*\) const', r'operator==\(tlx::StringView const&\)', r'operator!=\(tlx::StringView const&\)',
            r'operator<\(tlx::StringView const&\)', r'operator>\(tlx::StringView const&\)', r'operator<=\(tlx::StringView const&\)', r'operator>=\(tlx::StringView const&\)']
    for k in range(8):
        js.append(J('cmp_' + cmpn[k], 'compare', 'c_cmp', [cmpf[k]], extra=['KIND=%d' % k] + (['ZTERM'] if k == 1 else []),
                    what='%s agrees in sign/truth with traits::compare-then-length on unsigned bytes' % cmpn[k]))
    opn = ['eq', 'ne', 'lt', 'gt', 'le', 'ge']; ops = ['==', '!=', '<', '>', '<=', '>=']
    for kind, kn, other in [(0, 'str', r'std::__cxx11::basic_string<char, std::char_traits<char>, std::allocator<char> ?> const&'), (1, 'cstr', r'char const\*')]:
        for d in (0, 1):
            for o in range(6):
                sig = (r'tlx::operator%s\(tlx::StringView const&, %s\)' if d == 0 else r'tlx::operator%s\(%s, tlx::StringView const&\)') % (re.escape(ops[o]), other) if False else None
                js.append(Job(name='mix_%s_%s_%s' % (kn, opn[o], 'vo' if d == 0 else 'ov'), shim='stringview', contract='c18_stringview.c', harness='h_mix', enforce=['c_cmp_mix'],
                              defines=['OP_compare_mix', 'KIND=%d' % kind, 'DIR=%d' % d, 'MIXOP=%d' % o] + (['ZTERM'] if kind == 1 else []),
                              functions=[(r'^tlx::operator%s\(tlx::StringView const&, %s\)' % (re.escape(ops[o]), other)) if d == 0 else (r'^tlx::operator%s\(%s, tlx::StringView const&\)' % (re.escape(ops[o]), other))],
                              unwind=20, timeout=900, mode='assert', label='bounded: both operands <= 4 bytes; all byte values',
                              what='free operator%s between a StringView and a %s (%s): same truth value as on unsigned bytes' % (ops[o], 'std::string' if kind == 0 else 'const char*', 'view first' if d == 0 else 'view second')))
    subf = [r'compare\(unsigned long, unsigned long, tlx::StringView\) const', r'compare\(unsigned long, unsigned long, tlx::StringView, unsigned long, unsigned long\) const',
            r'compare\(unsigned long, unsigned long, char const\*\) const', r'compare\(unsigned long, unsigned long, char const\*, unsigned long\) const']
    for k in range(4):
        js.append(J('cmp_sub%d' % k, 'compare_sub', 'c_cmp_sub', [subf[k]], extra=['KIND=%d' % k] + (['ZTERM'] if k == 2 else []),
                    what='compare(pos1, n1, ...) overload %d: substr semantics, out_of_range exactly when pos > size' % k))
    for k, nm, fn in [(0, 'starts_with', r'starts_with\(tlx::StringView\)'), (1, 'starts_with_c', r'starts_with\(char\)'), (2, 'ends_with', r'ends_with\(tlx::StringView\)'), (3, 'ends_with_c', r'ends_with\(char\)')]:
        js.append(J(nm, 'affix', 'c_affix', [fn], extra=['KIND=%d' % k], what=nm))
    fams = ['find', 'rfind', 'find_first_of', 'find_last_of', 'find_first_not_of', 'find_last_not_of']
    forms = [('', r'\(tlx::StringView, unsigned long\) const'), ('_c', r'\(char, unsigned long\) const'), ('_pn', r'\(char const\*, unsigned long, unsigned long\) const'), ('_z', r'\(char const\*, unsigned long\) const')]
    for fi, fam in enumerate(fams):
        for fo, (sfx, sig) in enumerate(forms):
            heavy = (fam == 'find' and fo != 1)    # std::search: out of memory with exactly-sized (symbolic-size) buffers
            js.append(J(fam + sfx, 'search', 'c_search', [fam + sig], extra=['FAM=%d' % fi, 'FORM=%d' % fo] + (['ZTERM'] if fo == 3 else []) + (['FIXEDBUF'] if heavy else []),
                        what='%s%s equals the [string.view] definition for every pos%s' % (fam, sfx, ' (fixed-size buffers)' if heavy else '')))
    js.append(J('substr', 'substr', 'c_substr', [r'substr\('], what='substr: (data+pos, min(n, size-pos)); out_of_range iff pos > size'))
    js.append(J('copy', 'copy', 'c_copy', [r'copy\('], what='copy: min(n, size-pos) bytes from data()+pos; out_of_range iff pos > size; nothing else written'))
    js.append(J('at', 'at', 'c_at', [r'at\('], what='at: out_of_range iff pos >= size'))
    js.append(J('access', 'access', 'c_access', [r'operator\[\]', r'front\(\)', r'back\(\)', r'size\(\)', r'empty\(\)'], extra=['FIXEDBUF'], what='operator[], front, back, size, length, empty'))
    js.append(J('remove', 'remove', 'c_remove', [r'remove_prefix', r'remove_suffix'], what='remove_prefix / remove_suffix for n <= size'))
    js.append(J('from_cstr', 'from_cstr', 'c_from_cstr', [r'StringView\(char const\*\)'], what='StringView(const char*): strlen'))
    js.append(J('to_string', 'to_string', 'c_to_string', [r'to_string\[abi:cxx11\]\(\) const'], unwind=20, timeout=900,
                what='to_string() / operator std::string: same length and bytes (libstdc++ std::string code in scope), no leak'))
    return js


META = {
    'level': 'other',
    'assumptions': ['exceptions are observed as throw events (kind + condition); stack unwinding is not modelled',
                    'libc memcmp/strncmp/strlen/memchr are own loop models with ISO C semantics (tools/ir_prelude.c)'],
    'not_decided': ['views longer than 4 bytes / needles longer than 3', 'max_size(), iterators, stream output (no std::string_view counterpart relevant to the property or outside its list)'],
    'explanation': 'each query enforced against a spec function transcribed from [string.view]; bounded in length only',
}
