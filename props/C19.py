"""C19 -- string codecs round-trip and string helpers match their documented semantics (subset, see not_decided)."""
from vlib import Job

LABEL = 'bounded: strings of at most %d bytes, all byte values'


def jobs(tier):
    js = []
    def J(name, op, enforce, fns, extra=(), ln=6, unwind=None, **kw):
        js.append(Job(name=name, shim='strings', contract='c19_strings.c', harness='h_' + name, enforce=[enforce], defines=['OP_' + op, 'LN=%d' % ln] + list(extra),
                      functions=fns, unwind=unwind or (2 * ln + 6), timeout=1200, mode='assert', object_bits=kw.pop('object_bits', 10), label=LABEL % ln, cbmc_flags=['--no-standard-checks', '--pointer-check', '--bounds-check'] + list(kw.pop('cbmc_flags', [])),
                      resolve={'OPT_STRCREATE': r'^std::__cxx11::basic_string<char.*>::_M_create\('}, replace_calls=[('OPT_STRCREATE', 'stub_no_heap_string')], **kw))
    J('hexdump', 'hexdump', 'c_hexdump', [r'tlx::hexdump(\[abi:cxx11\])?\(void const\*, unsigned long\)'], ['LOWER=0'], what='hexdump: two upper-case hex digits per byte, high nibble first')
    J('hexdump_lc', 'hexdump', 'c_hexdump', [r'tlx::hexdump_lc(\[abi:cxx11\])?\(void const\*, unsigned long\)'], ['LOWER=1'], what='hexdump_lc: lower-case digits')
    J('parse_hexdump', 'parse_hexdump', 'c_parse', [r'tlx::parse_hexdump(\[abi:cxx11\])?\('], what='parse_hexdump inverts hexdump and hexdump_lc (any mix of digit case)')
    for an in range(0, 7):      # one job per input length: the sizes std::string works with are then constants
        J('base64_encode_n%d' % an, 'base64_encode', 'c_b64enc', [r'tlx::base64_encode(\[abi:cxx11\])?\(void const\*, unsigned long, unsigned long\)'], ['FIX_AN=%d' % an],
          what='base64_encode of %d bytes == RFC 4648 letters and padding, line breaks every 0/4/8 letters' % an)
        J('base64_roundtrip_n%d' % an, 'base64_roundtrip', 'c_b64rt', [r'tlx::base64_decode(\[abi:cxx11\])?\(void const\*, unsigned long, bool\)'], ['FIX_AN=%d' % an], unwind=24, object_bits=11,
          what='base64_decode(base64_encode(x, lb)) == x for %d bytes, lb in {0, 4, 8}' % an)
    J('to_lower', 'case', 'c_case', [r'tlx::to_lower\(char\)', r'tlx::to_upper\(char\)', r'tlx::to_lower(\[abi:cxx11\])?\(tlx::StringView\)'], ['UPPER=0'], what='to_lower(char) / to_upper(char) on all 256 values; to_lower(string)')
    J('to_upper', 'case', 'c_case', [r'tlx::to_upper(\[abi:cxx11\])?\(tlx::StringView\)'], ['UPPER=1'], what='to_upper(string)')
    J('affix', 'affix', 'c_affix', [r'tlx::starts_with\(tlx::StringView, tlx::StringView\)', r'tlx::ends_with\(tlx::StringView, tlx::StringView\)', r'tlx::contains\(tlx::StringView, tlx::StringView\)', r'tlx::starts_with_icase\(tlx::StringView', r'tlx::ends_with_icase\(tlx::StringView'],
      ln=4, what='starts_with / ends_with / contains and the _icase variants against their definitions')
    J('compare_icase', 'compare_icase', 'c_cmpi', [r'tlx::compare_icase\(tlx::StringView, tlx::StringView\)'], ln=4, what='compare_icase: sign of the lexicographic comparison of the lower-cased strings')
    J('trim', 'trim', 'c_trim', [r'tlx::trim\(tlx::StringView, tlx::StringView\)', r'tlx::trim_left\(tlx::StringView, tlx::StringView\)', r'tlx::trim_right\(tlx::StringView, tlx::StringView\)'], ln=5,
      what='trim / trim_left / trim_right with a drop set: maximal prefix / suffix of drop characters removed, nothing else')
    for ic in (0, 1):
        for bn in range(0, 4):
            J('levenshtein%s_b%d' % ('_icase' if ic else '', bn), 'levenshtein', 'c_lev', [r'tlx::levenshtein_algorithm<'], ['ICASE=%d' % ic, 'FIX_BN=%d' % bn], ln=3, unwind=8, cbmc_flags=['--unwind', '9'],
              what='levenshtein%s equals the recursive definition, |a| <= 3, |b| = %d' % ('_icase' if ic else '', bn))
    return js


META = {
    'level': 'other',
    'assumptions': ['assert-mode enforcement (assigns not checked)', 'std::string heap path replaced by a stub that fails when reached (all strings stay in the small-string buffer under the bounds)'],
    'not_decided': ['split / join / split_quoted / join_quoted (std::vector<std::string>), replace_first/all, erase_all, pad, base64_decode in lax mode: NOT under contract in this version',
                    'strings longer than 6 bytes'],
    'explanation': 'codecs against RFC 4648 / hex definitions incl. round trips; case, affix, comparison, trim and edit-distance helpers against transcriptions of their documented definitions',
}
