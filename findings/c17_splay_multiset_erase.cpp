#include <tlx/container/splay_tree.hpp>
#include <cstdio>
#include <vector>
int main() {
  int bad = 0;
  { tlx::splay_multiset<int> t; for (int i = 0; i < 4; i++) t.insert(5); t.insert(3); t.insert(7);
    t.erase(5); std::vector<int> v; t.traverse_preorder([&](int k){ v.push_back(k); });
    printf("multiset after erase(5): size()=%zu traversed=%zu\n", t.size(), v.size()); if (t.size() != v.size()) bad++; }
  { tlx::splay_multiset<int> t; int ks[] = {5,5,5,4,6,5,5}; for (int k : ks) t.insert(k);
    for (int r = 0; r < 3; r++) { t.erase(5); std::vector<int> v; t.traverse_preorder([&](int k){ v.push_back(k); }); printf("  size()=%zu traversed=%zu\n", t.size(), v.size()); if (t.size() != v.size()) bad++; } }
  printf("%d problems\n", bad); return bad;
}
