// g++ -std=c++17 -I/repo c11_semaphore_overflow.cpp -lpthread && ./a.out
// Semaphore::wait(delta, slack): delta + slack wraps around size_t, the wait returns at once although the value (1)
// never covered delta (2) + slack, and the value underflows: more tokens are handed out than were ever signalled.
#include <tlx/semaphore.hpp>
#include <cstdio>
#include <cstdint>
int main() {
  tlx::Semaphore s(1);
  size_t r = s.wait(2, SIZE_MAX);
  printf("wait(2, SIZE_MAX) on value 1 returned %zu (value() = %zu)\n", r, s.value());
  return s.value() > 1 ? 1 : 0;
}
