#include <tlx/container/string_view.hpp>
#include <string_view>
#include <cstdio>
int main() {
  int bad = 0;
  { tlx::StringView a("a\0b", 3), b("a\0c", 3); std::string_view x("a\0b", 3), y("a\0c", 3);
    if ((a.compare(b) < 0) != (x.compare(y) < 0)) { printf("compare NUL differs: tlx %d std %d\n", a.compare(b), x.compare(y)); bad++; } 
    if (a.rfind(b) != x.rfind(y)) { printf("rfind NUL differs: tlx %zu std %zu\n", a.rfind(b), x.rfind(y)); bad++; } }
  { tlx::StringView a("\x80", 1), b("a", 1); std::string_view x("\x80", 1), y("a", 1);
    if ((a < b) != (x < y)) { printf("operator< high byte differs: tlx %d std %d\n", a < b, x < y); bad++; } }
  { tlx::StringView a("abcd", 4); char d[4] = {0}; a.copy(d, 2, 2); if (d[0] != 'c') { printf("copy pos differs: got %c\n", d[0]); bad++; } }
  printf("%d differences\n", bad); return bad;
}
