// C13: BucketComputation for key types narrower than int (before fix df180a1).
//   g++ -std=c++17 -I/repo findings/c13_radixheap_small_keys.cpp -o /tmp/rh && /tmp/rh
// On the unrepaired tree the bucket index of (x = 0x81, limit = 1) is far outside [0, num_buckets).
#include <tlx/container/radix_heap.hpp>
#include <cstdint>
#include <cstdio>
int main()
{
    tlx::radix_heap_detail::BucketComputation<16, std::uint8_t> bc;
    size_t b = bc(0x81, 1);
    std::printf("bucket = %zu, num_buckets = %zu\n", b, (size_t)bc.num_buckets);
    return b < bc.num_buckets ? 0 : 1;
}
