#!/usr/bin/env python3
"""Sanity check of MY transcription (not of tlx): the reference compression functions of digest_spec.h, wrapped in the
standards' padding, must reproduce Python's hashlib on random messages of every length 0..300.  exit 0 ok, 2 mismatch."""
import hashlib, os, random, subprocess, sys, tempfile
here = os.path.dirname(os.path.abspath(__file__))
SRC = r'''
#include <stdio.h>
#include <string.h>
#include "digest_spec.h"
static void pad_and_run(int alg, const uint8_t* m, size_t n, uint8_t* out)
{
  unsigned B = alg == 3 ? 128 : 64, L = alg == 3 ? 16 : 8;
  uint8_t buf[1024]; memcpy(buf, m, n); size_t t = n; buf[t++] = 0x80;
  while (t % B != B - L) buf[t++] = 0;
  uint64_t bits = (uint64_t)n * 8;
  if (alg == 0) { for (int i = 0; i < 8; i++) buf[t++] = (bits >> (8 * i)) & 255; }
  else { for (unsigned i = 0; i < L - 8; i++) buf[t++] = 0; for (int i = 7; i >= 0; i--) buf[t++] = (bits >> (8 * i)) & 255; }
  if (alg == 0) { uint32_t s[4]; memcpy(s, SPEC_MD5_H0, 16); for (size_t o = 0; o < t; o += 64) spec_md5_compress(s, buf + o);
    for (int i = 0; i < 4; i++) for (int j = 0; j < 4; j++) out[4*i+j] = (s[i] >> (8*j)) & 255; }
  if (alg == 1) { uint32_t s[5]; memcpy(s, SPEC_SHA1_H0, 20); for (size_t o = 0; o < t; o += 64) spec_sha1_compress(s, buf + o);
    for (int i = 0; i < 5; i++) for (int j = 0; j < 4; j++) out[4*i+j] = (s[i] >> (8*(3-j))) & 255; }
  if (alg == 2) { uint32_t s[8]; memcpy(s, SPEC_SHA256_H0, 32); for (size_t o = 0; o < t; o += 64) spec_sha256_compress(s, buf + o);
    for (int i = 0; i < 8; i++) for (int j = 0; j < 4; j++) out[4*i+j] = (s[i] >> (8*(3-j))) & 255; }
  if (alg == 3) { uint64_t s[8]; memcpy(s, SPEC_SHA512_H0, 64); for (size_t o = 0; o < t; o += 128) spec_sha512_compress(s, buf + o);
    for (int i = 0; i < 8; i++) for (int j = 0; j < 8; j++) out[8*i+j] = (s[i] >> (8*(7-j))) & 255; }
}
int main(void)
{
  static const int DL[4] = {16, 20, 32, 64};
  int alg; unsigned n; uint8_t m[400], out[64];
  while (scanf("%d %u", &alg, &n) == 2) {
    for (unsigned i = 0; i < n; i++) { unsigned b; if (scanf("%2x", &b) != 1) return 1; m[i] = b; }
    pad_and_run(alg, m, n, out);
    for (int i = 0; i < DL[alg]; i++) printf("%02x", out[i]);
    printf("\n");
  }
  return 0;
}
'''
def main(outdir):
    os.makedirs(outdir, exist_ok=True)
    subprocess.check_call([sys.executable, os.path.join(here, 'gen_consts.py'), os.path.join(outdir, 'spec_consts.h')])
    c = os.path.join(outdir, 'validate_spec.c'); open(c, 'w').write(SRC)
    exe = os.path.join(outdir, 'validate_spec')
    subprocess.check_call(['gcc', '-O1', '-w', '-I', here, '-I', outdir, c, '-o', exe])
    rnd = random.Random(1); cases = []; inp = []
    for alg in range(4):
        for n in list(range(0, 300)) + [311, 319, 320, 383]:
            m = bytes(rnd.randrange(256) for _ in range(n)); cases.append((alg, m)); inp.append('%d %d %s' % (alg, n, m.hex()))
    out = subprocess.run([exe], input='\n'.join(inp).encode(), stdout=subprocess.PIPE, check=True).stdout.decode().split()
    H = [hashlib.md5, hashlib.sha1, hashlib.sha256, hashlib.sha512]
    bad = sum(1 for (alg, m), o in zip(cases, out) if H[alg](m).hexdigest() != o)
    if bad or len(out) != len(cases):
        print('spec transcription disagrees with hashlib on %d of %d messages' % (bad, len(cases))); return 2
    print('digest_spec.h agrees with hashlib on %d messages' % len(cases)); return 0
if __name__ == '__main__':
    sys.exit(main(sys.argv[1] if len(sys.argv) > 1 else tempfile.mkdtemp()))
