/* SipHash-2-4 (Aumasson, Bernstein 2012), transcribed from the paper's definition / reference C code: little-endian words,
 * two compression rounds per 8-byte block, the final block carries the remaining bytes and (length mod 256) in its top
 * byte, v2 ^= 0xff, four finalisation rounds, output v0 ^ v1 ^ v2 ^ v3.  Validated against the paper's test vector by
 * spec/validate_siphash.c on every run. */
#ifndef SIPHASH_SPEC_H
#define SIPHASH_SPEC_H
#include <stdint.h>
#include <stddef.h>
static uint64_t sip_rotl(uint64_t x, unsigned b) { return (x << b) | (x >> (64 - b)); }
static uint64_t sip_le64(const uint8_t* p)
{ return (uint64_t)p[0] | ((uint64_t)p[1] << 8) | ((uint64_t)p[2] << 16) | ((uint64_t)p[3] << 24) | ((uint64_t)p[4] << 32) | ((uint64_t)p[5] << 40) | ((uint64_t)p[6] << 48) | ((uint64_t)p[7] << 56); }
#define SIP_ROUND(v0, v1, v2, v3) do { \
  v0 += v1; v1 = sip_rotl(v1, 13); v1 ^= v0; v0 = sip_rotl(v0, 32); \
  v2 += v3; v3 = sip_rotl(v3, 16); v3 ^= v2;                        \
  v0 += v3; v3 = sip_rotl(v3, 21); v3 ^= v0;                        \
  v2 += v1; v1 = sip_rotl(v1, 17); v1 ^= v2; v2 = sip_rotl(v2, 32); } while (0)
#ifndef SIP_MAXLEN
#define SIP_MAXLEN 64
#endif
static uint64_t spec_siphash24(const uint8_t key[16], const uint8_t* in, size_t len)
{
  uint64_t k0 = sip_le64(key), k1 = sip_le64(key + 8);
  uint64_t v0 = 0x736f6d6570736575ULL ^ k0, v1 = 0x646f72616e646f6dULL ^ k1, v2 = 0x6c7967656e657261ULL ^ k0, v3 = 0x7465646279746573ULL ^ k1;
  size_t nblocks = len / 8;
  for (size_t j = 0; j < SIP_MAXLEN / 8; j++) if (j < nblocks) {
    uint64_t m = sip_le64(in + 8 * j);
    v3 ^= m; SIP_ROUND(v0, v1, v2, v3); SIP_ROUND(v0, v1, v2, v3); v0 ^= m;
  }
  uint64_t b = (uint64_t)len << 56;
  for (size_t t = 0; t < 7; t++) if (t < len % 8) b |= (uint64_t)in[8 * nblocks + t] << (8 * t);
  v3 ^= b; SIP_ROUND(v0, v1, v2, v3); SIP_ROUND(v0, v1, v2, v3); v0 ^= b;
  v2 ^= 0xff;
  SIP_ROUND(v0, v1, v2, v3); SIP_ROUND(v0, v1, v2, v3); SIP_ROUND(v0, v1, v2, v3); SIP_ROUND(v0, v1, v2, v3);
  return v0 ^ v1 ^ v2 ^ v3;
}
#endif
