/* sanity check of spec/siphash_spec.h: key 00..0f, message 00..(len-1): the SipHash paper's Appendix A vector (15 bytes)
 * and the first entries of the reference implementation's vector table */
#include <stdio.h>
#include "siphash_spec.h"
int main(void)
{
  uint8_t key[16], msg[64]; for (int i = 0; i < 16; i++) key[i] = (uint8_t)i; for (int i = 0; i < 64; i++) msg[i] = (uint8_t)i;
  struct { size_t len; uint64_t want; } v[] = { {15, 0xa129ca6149be45e5ULL}, {0, 0x726fdb47dd0e0e31ULL}, {1, 0x74f839c593dc67fdULL} };
  int bad = 0;
  for (unsigned i = 0; i < sizeof v / sizeof v[0]; i++) {
    uint64_t got = spec_siphash24(key, msg, v[i].len);
    if (got != v[i].want) { printf("siphash spec: length %zu gives %016llx, expected %016llx\n", v[i].len, (unsigned long long)got, (unsigned long long)v[i].want); bad = 1; }
  }
  if (!bad) printf("siphash spec ok\n");
  return bad;
}
