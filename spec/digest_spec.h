/* digest_spec.h -- reference text for C14: MD5 (RFC 1321), SHA-1 / SHA-256 / SHA-512 (FIPS 180-4), transcribed in the
 * standards' own notation.  Constants come from spec_consts.h, generated from their definitions by gen_consts.py.
 * spec/validate_spec.py checks these transcriptions against Python's hashlib before any run trusts them. */
#ifndef DIGEST_SPEC_H
#define DIGEST_SPEC_H
#include <stdint.h>
#include "spec_consts.h"

static uint32_t ROTL32(uint32_t x, unsigned n) { return (x << n) | (x >> (32 - n)); }
static uint32_t ROTR32(uint32_t x, unsigned n) { return (x >> n) | (x << (32 - n)); }
static uint64_t ROTR64(uint64_t x, unsigned n) { return (x >> n) | (x << (64 - n)); }

/* ---------------------------------------------------------------- MD5, RFC 1321 section 3.4 */
static void spec_md5_compress(uint32_t st[4], const uint8_t blk[64])
{
  static const unsigned S[4][4] = {{7, 12, 17, 22}, {5, 9, 14, 20}, {4, 11, 16, 23}, {6, 10, 15, 21}};
  uint32_t X[16];
  for (unsigned i = 0; i < 16; i++)
    X[i] = (uint32_t)blk[4 * i] | ((uint32_t)blk[4 * i + 1] << 8) | ((uint32_t)blk[4 * i + 2] << 16) | ((uint32_t)blk[4 * i + 3] << 24);
  uint32_t a = st[0], b = st[1], c = st[2], d = st[3];
  for (unsigned i = 0; i < 64; i++) {
    uint32_t f; unsigned k;
    if (i < 16)      { f = (b & c) | (~b & d); k = i; }
    else if (i < 32) { f = (b & d) | (c & ~d); k = (5 * i + 1) % 16; }
    else if (i < 48) { f = b ^ c ^ d;          k = (3 * i + 5) % 16; }
    else             { f = c ^ (b | ~d);       k = (7 * i) % 16; }
    /* a = b + ((a + f + X[k] + T[i+1]) <<< s); then the roles rotate (d, a, b, c) */
    uint32_t t = b + ROTL32(a + f + X[k] + SPEC_MD5_T[i], S[i / 16][i % 4]);
    a = d; d = c; c = b; b = t;
  }
  st[0] += a; st[1] += b; st[2] += c; st[3] += d;
}
static const uint32_t SPEC_MD5_H0[4] = {0x67452301u, 0xefcdab89u, 0x98badcfeu, 0x10325476u};   /* RFC 1321 3.3: bytes 01 23 45 67 ... */

/* ---------------------------------------------------------------- SHA-1, FIPS 180-4 section 6.1.2 */
static void spec_sha1_compress(uint32_t H[5], const uint8_t blk[64])
{
  uint32_t W[80];
  for (unsigned t = 0; t < 16; t++)
    W[t] = ((uint32_t)blk[4 * t] << 24) | ((uint32_t)blk[4 * t + 1] << 16) | ((uint32_t)blk[4 * t + 2] << 8) | (uint32_t)blk[4 * t + 3];
  for (unsigned t = 16; t < 80; t++) W[t] = ROTL32(W[t - 3] ^ W[t - 8] ^ W[t - 14] ^ W[t - 16], 1);
  uint32_t a = H[0], b = H[1], c = H[2], d = H[3], e = H[4];
  for (unsigned t = 0; t < 80; t++) {
    uint32_t f, K;
    if (t < 20)      { f = (b & c) ^ (~b & d);          K = SPEC_SHA1_K[0]; }
    else if (t < 40) { f = b ^ c ^ d;                   K = SPEC_SHA1_K[1]; }
    else if (t < 60) { f = (b & c) ^ (b & d) ^ (c & d); K = SPEC_SHA1_K[2]; }
    else             { f = b ^ c ^ d;                   K = SPEC_SHA1_K[3]; }
    uint32_t T = ROTL32(a, 5) + f + e + K + W[t];
    e = d; d = c; c = ROTL32(b, 30); b = a; a = T;
  }
  H[0] += a; H[1] += b; H[2] += c; H[3] += d; H[4] += e;
}
static const uint32_t SPEC_SHA1_H0[5] = {0x67452301u, 0xefcdab89u, 0x98badcfeu, 0x10325476u, 0xc3d2e1f0u};

/* ---------------------------------------------------------------- SHA-256, FIPS 180-4 sections 4.1.2, 6.2.2 */
static uint32_t Ch32(uint32_t x, uint32_t y, uint32_t z) { return (x & y) ^ (~x & z); }
static uint32_t Maj32(uint32_t x, uint32_t y, uint32_t z) { return (x & y) ^ (x & z) ^ (y & z); }
static uint32_t BSIG0_256(uint32_t x) { return ROTR32(x, 2) ^ ROTR32(x, 13) ^ ROTR32(x, 22); }
static uint32_t BSIG1_256(uint32_t x) { return ROTR32(x, 6) ^ ROTR32(x, 11) ^ ROTR32(x, 25); }
static uint32_t SSIG0_256(uint32_t x) { return ROTR32(x, 7) ^ ROTR32(x, 18) ^ (x >> 3); }
static uint32_t SSIG1_256(uint32_t x) { return ROTR32(x, 17) ^ ROTR32(x, 19) ^ (x >> 10); }
static void spec_sha256_compress(uint32_t H[8], const uint8_t blk[64])
{
  uint32_t W[64];
  for (unsigned t = 0; t < 16; t++)
    W[t] = ((uint32_t)blk[4 * t] << 24) | ((uint32_t)blk[4 * t + 1] << 16) | ((uint32_t)blk[4 * t + 2] << 8) | (uint32_t)blk[4 * t + 3];
  for (unsigned t = 16; t < 64; t++) W[t] = SSIG1_256(W[t - 2]) + W[t - 7] + SSIG0_256(W[t - 15]) + W[t - 16];
  uint32_t a = H[0], b = H[1], c = H[2], d = H[3], e = H[4], f = H[5], g = H[6], h = H[7];
  for (unsigned t = 0; t < 64; t++) {
    uint32_t T1 = h + BSIG1_256(e) + Ch32(e, f, g) + SPEC_SHA256_K[t] + W[t];
    uint32_t T2 = BSIG0_256(a) + Maj32(a, b, c);
    h = g; g = f; f = e; e = d + T1; d = c; c = b; b = a; a = T1 + T2;
  }
  H[0] += a; H[1] += b; H[2] += c; H[3] += d; H[4] += e; H[5] += f; H[6] += g; H[7] += h;
}

/* ---------------------------------------------------------------- SHA-512, FIPS 180-4 sections 4.1.3, 6.4.2 */
static uint64_t Ch64(uint64_t x, uint64_t y, uint64_t z) { return (x & y) ^ (~x & z); }
static uint64_t Maj64(uint64_t x, uint64_t y, uint64_t z) { return (x & y) ^ (x & z) ^ (y & z); }
static uint64_t BSIG0_512(uint64_t x) { return ROTR64(x, 28) ^ ROTR64(x, 34) ^ ROTR64(x, 39); }
static uint64_t BSIG1_512(uint64_t x) { return ROTR64(x, 14) ^ ROTR64(x, 18) ^ ROTR64(x, 41); }
static uint64_t SSIG0_512(uint64_t x) { return ROTR64(x, 1) ^ ROTR64(x, 8) ^ (x >> 7); }
static uint64_t SSIG1_512(uint64_t x) { return ROTR64(x, 19) ^ ROTR64(x, 61) ^ (x >> 6); }
static void spec_sha512_compress(uint64_t H[8], const uint8_t blk[128])
{
  uint64_t W[80];
  for (unsigned t = 0; t < 16; t++) {
    uint64_t w = 0;
    for (unsigned j = 0; j < 8; j++) w = (w << 8) | blk[8 * t + j];
    W[t] = w;
  }
  for (unsigned t = 16; t < 80; t++) W[t] = SSIG1_512(W[t - 2]) + W[t - 7] + SSIG0_512(W[t - 15]) + W[t - 16];
  uint64_t a = H[0], b = H[1], c = H[2], d = H[3], e = H[4], f = H[5], g = H[6], h = H[7];
  for (unsigned t = 0; t < 80; t++) {
    uint64_t T1 = h + BSIG1_512(e) + Ch64(e, f, g) + SPEC_SHA512_K[t] + W[t];
    uint64_t T2 = BSIG0_512(a) + Maj64(a, b, c);
    h = g; g = f; f = e; e = d + T1; d = c; c = b; b = a; a = T1 + T2;
  }
  H[0] += a; H[1] += b; H[2] += c; H[3] += d; H[4] += e; H[5] += f; H[6] += g; H[7] += h;
}
#endif
